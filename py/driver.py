"""
Python-side conformance driver for C17 / C18, executed inside the embedded interpreter of
harness/lmpyconform (the repository's lightmotif-py crate is registered as `lightmotif.lib`).

It generates seeded call histories on the Python API and records one ndjson event per call
(arguments, result converted to integers, exception class).  TLC validates the trace against
spec/trace/Trace_Py.tla.  No expected value is computed here: this file only drives and records.
"""
import io, json, math, os, random, tempfile

import lightmotif
import lmhook

NINF = -1073741824
NAN_S = 1073741823
PINF_S = 1073741822
OFFGRID_S = 1073741821

DNA = "ACTGN"
PROT = "ACDEFGHIKLMNPQRSTVWYX"


def letters(protein):
    return PROT if protein else DNA


# ----------------------------------------------------------------------------- recording

try:
    from lmhook import beat as _beat        # watchdog heartbeat of the embedding process (a hang becomes an observation)
except Exception:                          # pragma: no cover - driver imported outside lmpyconform
    def _beat(h, p):
        pass
_REC = []


class Rec:
    def __init__(self, path):
        _REC.append(self)
        self.f = open(path, "w")
        self.events = 0
        self.histories = 0
        self.classes = {}
        self.distinct = set()
        self.samples = []

    def emit(self, e, sig=None):
        self.f.write('{"ev":"reset"}\n')
        self.histories += 1
        _beat(self.histories, "")
        s = json.dumps(e)
        self.f.write(s + "\n")
        self.events += 1
        if len(self.samples) < 3 and self.events % 53 == 1 and len(s) < 1500:
            self.samples.append(e)
        self.distinct.add(hash(sig if sig is not None else s))

    def cls(self, name):
        self.classes[name] = self.classes.get(name, 0) + 1

    def finish(self):
        self.f.close()
        return json.dumps(dict(events=self.events, histories=self.histories, classes=self.classes,
                               distinct_nontrivial=len(self.distinct), samples=self.samples))


def quant(x, q):
    if x is None:
        return NAN_S
    if isinstance(x, float):
        if math.isnan(x):
            return NAN_S
        if x == float("-inf"):
            return NINF
        if x == float("inf"):
            return PINF_S
    y = round(x * q)
    return int(y) if abs(y) < 1e9 else OFFGRID_S


def grid(x, g=4):
    """exact grid value (multiple of 1/g) or sentinel"""
    if isinstance(x, float) and (math.isnan(x) or math.isinf(x)):
        return quant(x, g)
    y = x * g
    return int(y) if y == int(y) and abs(y) < 1e9 else OFFGRID_S


def call(f):
    """('ok', value) | ('exc', class name) for ordinary exceptions | ('panic', class name) for BaseException-only"""
    _beat(_REC[0].histories if _REC else 0, "")
    try:
        return ("ok", f())
    except Exception as e:          # ordinary Python exception
        return ("exc", type(e).__name__)
    except BaseException as e:      # pyo3 PanicException derives from BaseException only
        return ("panic", type(e).__name__ + ": " + str(e)[:120])


# ----------------------------------------------------------------------------- builders

def rand_ranks(rng, n, k, pw=0.03):
    return [(k - 1) if rng.random() < pw else rng.randrange(k - 1) for _ in range(n)]


def text_of(ranks, protein):
    L = letters(protein)
    return "".join(L[r] for r in ranks)


def rand_pssm(rng, m, k, amp=20, p_ninf=0.0, wild="ninf"):
    rows = []
    for _ in range(m):
        row = [NINF if rng.random() < p_ninf else rng.randint(-amp, amp) for _ in range(k - 1)]
        row.append(NINF if wild == "ninf" else (0 if wild == "zero" else rng.randint(-amp, amp)))
        rows.append(row)
    return rows


def ungrid(v, g=4):
    return float("-inf") if v == NINF else v / g


def make_pssm(rows, protein, with_wild_key=True, background=None):
    L = letters(protein)
    k = len(L)
    d = {}
    for j in range(k):
        if j == k - 1 and not with_wild_key:
            continue
        d[L[j]] = [ungrid(r[j]) for r in rows]
    if background is not None:
        return lightmotif.ScoringMatrix(d, background, protein=protein)
    return lightmotif.ScoringMatrix(d, protein=protein)


# ----------------------------------------------------------------------------- C17

def ev_calc(rec, rng, arm, protein, striped, ranks, rows, tag):
    """calculate + max / argmax / threshold on one (possibly reused) striped sequence"""
    k = len(letters(protein))
    wild_key = rows[0][k - 1] != 0 or rng.random() < 0.5
    pssm = make_pssm(rows, protein, with_wild_key=wild_key)
    e = dict(ev="py_calc", arm=arm, abc="protein" if protein else "dna", K=k, C=32, seq=ranks, pssm=rows, tag=tag)
    r = call(lambda: pssm.calculate(striped))
    if r[0] != "ok":
        e.update(ret=r[0], msg=r[1], scores=[], max=[], argmax=[], thr=0, hits=[], len=0)
        rec.emit(e)
        return
    sc = r[1]
    def read_scores():
        by_index = [grid(sc[i]) for i in range(len(sc))]
        # the same values through the sequence protocol (iteration stops at the first IndexError): one more or one less
        # element than len() shows up here
        by_iter = [grid(x) for x in sc]
        return by_index if by_iter == by_index else by_iter
    r2 = call(lambda: (len(sc), read_scores(), sc.max(), sc.argmax()))
    if r2[0] != "ok":
        e.update(ret=r2[0], msg=r2[1], scores=[], max=[], argmax=[], thr=0, hits=[], len=0)
        rec.emit(e)
        return
    n, vals, mx, am = r2[1]
    finite = [v for v in vals if NINF < v < 1000000]
    thr = rng.choice(finite) if finite and rng.random() < 0.8 else rng.randint(-60, 60)
    r3 = call(lambda: sc.threshold(thr / 4))
    hits = r3[1] if r3[0] == "ok" else []
    e.update(ret="ok" if r3[0] == "ok" else r3[0], len=n, scores=vals,
             max=[] if mx is None else [grid(mx)], argmax=[] if am is None else [am], thr=thr, hits=list(hits))
    rec.emit(e, sig=(arm, protein, tuple(ranks), json.dumps(rows)))
    rec.cls("calculate_" + tag)


def c17_scoring(rec, rng, thorough):
    arms = ["none", "avx2", "sse2", "generic"]
    n = 80 if thorough else 32
    for it in range(n):
        arm = arms[it % 4]
        lmhook.force_arm(arm)
        protein = it % 5 == 4
        k = len(letters(protein))
        L = rng.choice([0, 1, 5, 31, 32, 33, 40, 64, 65, 97, 130, 200]) if it % 3 else rng.randint(0, 150)
        ranks = rand_ranks(rng, L, k)
        r = call(lambda: lightmotif.stripe(text_of(ranks, protein), protein=protein))
        if r[0] != "ok":
            rec.emit(dict(ev="py_call", call="stripe", ret=r[0], msg=r[1], expect="ok"))
            continue
        striped = r[1]
        # the same striped object scored with motifs of different widths, in both orders
        w1, w2 = rng.randint(1, 6), rng.randint(7, 24)
        order = [w1, w2, w1] if it % 2 == 0 else [w2, w1, w2]
        if it % 7 == 0:
            order.append(L + 1)            # motif longer than the sequence
        for w in order:
            wild = rng.choice(["ninf", "ninf", "zero", "rand"])
            rows = rand_pssm(rng, max(w, 1), k, p_ninf=0.1 if it % 4 == 1 else 0.0, wild=wild)
            ev_calc(rec, rng, arm, protein, striped, ranks, rows, "reused")
    lmhook.force_arm("none")


def c17_scan(rec, rng, thorough):
    arms = ["none", "avx2"]        # the generic / sse2 arms run into the known non-saturating 8-bit kernel (C08)
    n = 300 if thorough else 90
    for it in range(n):
        arm = arms[it % 2]
        lmhook.force_arm(arm)
        L = rng.choice([0, 3, 20, 31, 32, 33, 63, 64, 65, 96, 97, 127, 128, 129, 190, 256, 257]) if it % 3 else rng.randint(0, 300)
        m = rng.choice([1, 2, 3, 4, 8, 15, L + 1]) if it % 5 == 0 else rng.randint(1, 10)
        m = max(1, min(m, 24))
        ranks = rand_ranks(rng, L, 5)
        kind = it % 4
        rows = rand_pssm(rng, m, 5, amp=[20, 3, 12, 20][kind], p_ninf=0.15 if kind == 2 else 0.0)
        if L >= m and rng.random() < 0.7:    # plant the consensus
            p = rng.randint(0, L - m)
            for j in range(m):
                fin = [(v, s) for s, v in enumerate(rows[j][:4]) if v != NINF]
                if fin:
                    ranks[p + j] = max(fin)[1]
        fin_max = sum(max([v for v in r[:4] if v != NINF] or [0]) for r in rows)
        fin_min = sum(min([v for v in r[:4] if v != NINF] or [0]) for r in rows)
        thr = rng.choice([fin_max + 1, fin_max, (fin_max + fin_min) // 2, fin_min, fin_min - 3, NINF, rng.randint(fin_min, fin_max)])
        bs = rng.choice([1, 2, 3, 4, 7, 256])
        e = dict(ev="py_scan", arm=arm, K=5, seq=ranks, pssm=rows, thr=thr, bs=bs)

        life = it % 3      # object life-cycles: 0 = everything referenced, 1 = temporaries only, 2 = references dropped + churn

        def run():
            hits = []
            if life == 1:
                # the scanner is the only owner of the matrix and of the sequence
                sc = lightmotif.scan(make_pssm(rows, False).reverse_complement().reverse_complement(),
                                     lightmotif.stripe(text_of(ranks, False)), threshold=ungrid(thr), block_size=bs)
            else:
                pssm = make_pssm(rows, False)
                striped = lightmotif.stripe(text_of(ranks, False))
                if m >= 3 and it % 2 == 0:
                    # the same striped sequence was scanned with a SHORTER motif before (one sequence, several motifs)
                    short = make_pssm(rows[:2 + it % (m - 2)], False)
                    for _h in lightmotif.scan(short, striped, threshold=ungrid(thr), block_size=bs):
                        break
                sc = lightmotif.scan(pssm, striped, threshold=ungrid(thr), block_size=bs)
                if life == 2:
                    del pssm, striped
            if life:
                # recycle the memory of anything that was freed: objects of the same sizes with other contents
                import gc
                gc.collect()
                junk = [make_pssm([[7 - (i + j + k) % 15 for k in range(4)] + [NINF] for j in range(len(rows))], False) for i in range(12)]
                junk2 = [lightmotif.stripe(text_of([(i + j) % 4 for j in range(len(ranks))], False)) for i in range(6)]
            for h in sc:
                hits.append([h.position, grid(h.score)])
                if len(hits) > L + 2:
                    return "hang"
            return hits
        r = call(run)
        if r[0] == "ok" and r[1] != "hang":
            e.update(ret="ok", hits=r[1])
        else:
            e.update(ret="hang" if r[0] == "ok" else r[0], msg="" if r[0] == "ok" else r[1], hits=[])
        rec.emit(e, sig=(arm, tuple(ranks), json.dumps(rows), thr, bs))
        rec.cls("scan")
        if life:
            rec.cls("scanner_outlives_its_arguments")
    lmhook.force_arm("none")


_ROWS_CALLS = [0]


def rows_of(mat, n):
    # every other read goes through negative indices (mat[i - n] is row i)
    _ROWS_CALLS[0] += 1
    if _ROWS_CALLS[0] % 2 == 0:
        return [list(mat[i - n]) for i in range(n)]
    return [list(mat[i]) for i in range(n)]


def c17_create(rec, rng, thorough):
    n = 200 if thorough else 60
    for it in range(n):
        protein = it % 4 == 3
        k = len(letters(protein))
        m = rng.randint(1, 9)
        ns = rng.randint(1, 14)
        seqs = [rand_ranks(rng, m, k, 0.04) for _ in range(ns)]
        bad = it % 6
        texts = [text_of(s, protein) for s in seqs]
        expect = "ok"
        if bad == 4 and ns >= 2:
            texts[rng.randrange(1, ns)] += letters(protein)[0]
            expect = "exc"
        elif bad == 5:
            texts[rng.randrange(ns)] = texts[0][:-1] + "!"
            expect = "exc"
        e = dict(ev="py_create", abc="protein" if protein else "dna", K=k, seqs=seqs, expect=expect)

        def run():
            # the sequences arrive as a list, a tuple, a generator or a plain iterator (one-shot iterables included)
            arg = [texts, tuple(texts), (t for t in texts), iter(texts)][it % 4]
            mo = lightmotif.create(arg, protein=protein)
            return (rows_of(mo.counts, len(mo.counts)),
                    [[quant(x, 4096) for x in row] for row in rows_of(mo.pwm, len(mo.pwm))],
                    [[quant(x, 1024) for x in row] for row in rows_of(mo.pssm, len(mo.pssm))],
                    mo.protein)
        r = call(run)
        if r[0] == "ok":
            e.update(ret="ok", counts=r[1][0], w=r[1][1], s=r[1][2], isprot=r[1][3])
        else:
            e.update(ret=r[0], msg=r[1], counts=[], w=[], s=[], isprot=False)
        rec.emit(e)
        rec.cls("create_" + expect)


def c17_normalize(rec, rng, thorough):
    n = 300 if thorough else 90
    for it in range(n):
        protein = it % 5 == 4
        L = letters(protein)
        k = len(L)
        m = rng.randint(1, 8)
        counts = []
        for _ in range(m):
            row = [0] * k
            for _ in range(rng.randint(1, 20)):
                row[rng.randrange(k - 1) if rng.random() > 0.03 else k - 1] += 1
            counts.append(row)
        pk = it % 4
        pd = [1, 10, 2, 4][pk]
        if pk == 0:
            parg, pn = None, [0] * k
        elif pk in (1, 2):
            parg, pn = 1.0 / pd, [1] * (k - 1) + [0]
        else:
            pn = [rng.randint(0, 3) for _ in range(k)]
            parg = {L[j]: pn[j] / pd for j in range(k) if pn[j] or rng.random() < 0.5}
        bk = (it // 4) % 3
        if bk == 0 or protein:
            barg, bn, bd = None, [1] * (k - 1) + [0], k - 1
        elif bk == 1:
            bn, bd = [4, 1, 1, 2, 0], 8
            barg = {L[j]: bn[j] / bd for j in range(k)}
        else:
            bn, bd = [1, 3, 3, 1, 0], 8
            barg = {L[j]: bn[j] / bd for j in range(k - 1)}       # wildcard key omitted -> 0
        basen, based = [(2, 1), (4, 1), (10, 1), (8, 1)][(it // 3) % 4]
        e = dict(ev="py_norm", abc="protein" if protein else "dna", K=k, m=counts, pn=pn, pd=pd, bn=bn, bd=bd,
                 basen=basen, based=based, bg_given=barg is not None)

        def run():
            cm = lightmotif.CountMatrix({L[j]: [r[j] for r in counts] for j in range(k)}, protein=protein)
            wm = cm.normalize(parg) if parg is not None else cm.normalize()
            if barg is None:
                sm = wm.log_odds(base=basen / based) if (basen, based) != (2, 1) else wm.log_odds()
            else:
                sm = wm.log_odds(barg, base=basen / based)
            return ([[quant(x, 4096) for x in row] for row in rows_of(wm, len(wm))],
                    [[quant(x, 1024) for x in row] for row in rows_of(sm, len(sm))],
                    rows_of(cm, len(cm)))
        r = call(run)
        if r[0] == "ok":
            e.update(ret="ok", w=r[1][0], s=r[1][1], counts=r[1][2])
        else:
            e.update(ret=r[0], msg=r[1], w=[], s=[], counts=[])
        rec.emit(e)
        rec.cls("normalize_bg_given" if barg is not None else "normalize_uniform")


def c17_pvalues(rec, rng, thorough):
    n = 90 if thorough else 30
    for it in range(n):
        m = 2 + it % 4
        amp = [8, 20, 40][it % 3]
        protein = it % 5 == 4          # the protein arm of the bindings (uniform background, 20^M words)
        if protein:
            m = 2 + it % 2
            rows = [[rng.randint(-amp, amp) for _ in range(20)] + [NINF] for _ in range(m)]
            bk, bn, bd, barg = 0, [1] * 20 + [0], 20, None
        else:
            rows = [[rng.randint(-amp, amp) for _ in range(4)] + [NINF] for _ in range(m)]
            bk = it % 3
            bn, bd = [([1, 1, 1, 1, 0], 4), ([4, 1, 1, 2, 0], 8), ([1, 3, 3, 1, 0], 8)][bk]
            barg = None if bk == 0 else {DNA[j]: bn[j] / bd for j in range(5)}
        den = bd ** m
        kk = 21 if protein else 5
        att = {0}
        for r in rows:
            att = {a + x for a in att for x in r[:kk - 1]}
        att = sorted(att)
        qs = sorted(set([att[0] - 4000, att[0] - 90, att[0] - 5, att[0], att[-1], att[-1] + 7, att[-1] + 4000] + [rng.choice(att) for _ in range(4)]))
        e = dict(ev="py_pvalue", K=kk, G=4, pssm=rows, bn=bn, bd=bd, den=den)

        def run():
            pssm = make_pssm(rows, protein, background=barg)
            pv = []
            for s4 in qs:
                a = pssm.pvalue(s4 / 4)
                b = pssm.pvalue(s4 / 4, method="tfmpvalue")
                pv.append([s4, quant(a * den, 1), quant(b * den, 1)])
            inv = []
            for pn, pdn in [(1, 2), (1, 4), (1, 10), (3, 4), (1, 100)]:
                t = pssm.score(pn / pdn)
                inv.append([pn, pdn, quant(pssm.pvalue(t) * den, 1)])
            tsc = []
            for pn, pdn in [(1, 2), (1, 4), (1, 10), (3, 4)]:
                t = pssm.score(pn / pdn, method="tfmpvalue")
                tsc.append([pn, pdn, quant(t, 1000000)])
            return pv, inv, tsc
        r = call(run)
        if r[0] == "ok":
            e.update(ret="ok", pv=r[1][0], inv=r[1][1], tsc=r[1][2])
        else:
            e.update(ret=r[0], msg=r[1], pv=[], inv=[], tsc=[])
        rec.emit(e)
        rec.cls("pvalue_protein" if protein else "pvalue")
        if protein:
            continue                                   # no reverse complement of a protein matrix

        # history: p-values were asked on the forward matrix first, then on its reverse complement (a new
        # object with other cells and, under a strand-asymmetric background, another distribution)
        def run_rc():
            pssm = make_pssm(rows, False, background=barg)
            pssm.pvalue(att[-1] / 4)                       # forces the forward distribution to be computed
            rc = pssm.reverse_complement()
            cells = [[grid(x) for x in rc[i]] for i in range(len(rc))]
            pv = [[s4, quant(rc.pvalue(s4 / 4) * den, 1), quant(rc.pvalue(s4 / 4, method="tfmpvalue") * den, 1)] for s4 in qs]
            inv = []
            for pn, pdn in [(1, 2), (1, 4), (1, 10), (3, 4)]:
                inv.append([pn, pdn, quant(rc.pvalue(rc.score(pn / pdn)) * den, 1)])
            return cells, pv, inv
        r = call(run_rc)
        e2 = dict(ev="py_pvalue", K=5, G=4, bn=bn, bd=bd, den=den, origin="reverse_complement after forward pvalue")
        if r[0] == "ok":
            e2.update(ret="ok", pssm=r[1][0], pv=r[1][1], inv=r[1][2], tsc=[])
        else:
            e2.update(ret=r[0], msg=r[1], pssm=rows, pv=[], inv=[], tsc=[])
        rec.emit(e2)
        rec.cls("pvalue_of_reverse_complement")


def c17_rc(rec, rng, thorough):
    n = 40 if thorough else 12
    for it in range(n):
        m = rng.randint(1, 12)
        rows = rand_pssm(rng, m, 5, p_ninf=0.1, wild="rand")
        e = dict(ev="py_rc", m=rows)
        r = call(lambda: rows_of(make_pssm(rows, False).reverse_complement(), m))
        if r[0] == "ok":
            e.update(ret="ok", out=[[grid(x) for x in row] for row in r[1]])
        else:
            e.update(ret=r[0], msg=r[1], out=[])
        rec.emit(e)
        rec.cls("reverse_complement")


def c17_errors(rec, rng, thorough):
    """alphabet mismatches / invalid arguments must raise ordinary exceptions"""
    dna = make_pssm(rand_pssm(rng, 3, 5), False)
    prot = make_pssm(rand_pssm(rng, 3, 21), True)
    sd = lightmotif.stripe("ACGTACGTAC")
    sp = lightmotif.stripe("ACDEFGHIKL", protein=True)
    cases = [
        ("calculate_dna_pssm_protein_seq", lambda: dna.calculate(sp)),
        ("calculate_protein_pssm_dna_seq", lambda: prot.calculate(sd)),
        ("scan_protein", lambda: list(lightmotif.scan(prot, sp))),
        ("scan_mismatch", lambda: list(lightmotif.scan(dna, sp))),
        ("stripe_invalid_symbol", lambda: lightmotif.stripe("ACGU")),
        ("stripe_lowercase", lambda: lightmotif.stripe("acgt")),
        ("encode_invalid", lambda: lightmotif.EncodedSequence("AC-GT")),
        ("create_ragged2", lambda: lightmotif.create(["A", "AC", "ACG"])),
        ("create_ragged", lambda: lightmotif.create(["ACGT", "ACG"])),
        ("countmatrix_no_keys", lambda: lightmotif.CountMatrix({})),
        ("countmatrix_ragged", lambda: lightmotif.CountMatrix({"A": [1, 2], "C": [1]})),
        ("scoringmatrix_no_keys", lambda: lightmotif.ScoringMatrix({})),
        ("normalize_bad_type", lambda: lightmotif.CountMatrix({"A": [1], "C": [1], "T": [1], "G": [1]}).normalize("x")),
        ("log_odds_bad_background", lambda: lightmotif.CountMatrix({"A": [1], "C": [1], "T": [1], "G": [1]}).normalize(0.5).log_odds({"A": 0.9, "C": 0.9})),
        ("log_odds_bad_key", lambda: lightmotif.CountMatrix({"A": [1], "C": [1], "T": [1], "G": [1]}).normalize(0.5).log_odds({"AA": 0.5})),
        ("log_odds_empty_key", lambda: lightmotif.CountMatrix({"A": [1], "C": [1], "T": [1], "G": [1]}).normalize(0.5).log_odds({"": 0.5, "A": 0.5})),
        ("normalize_empty_key", lambda: lightmotif.CountMatrix({"A": [1], "C": [1], "T": [1], "G": [1]}).normalize({"": 0.5})),
        ("normalize_long_key", lambda: lightmotif.CountMatrix({"A": [1], "C": [1], "T": [1], "G": [1]}).normalize({"AC": 0.5})),
        ("normalize_unknown_key", lambda: lightmotif.CountMatrix({"A": [1], "C": [1], "T": [1], "G": [1]}).normalize({"Z": 0.5})),
        ("scoringmatrix_empty_background_key", lambda: lightmotif.ScoringMatrix({"A": [1.0], "C": [1.0], "T": [1.0], "G": [1.0]}, background={"": 1.0})),
        ("scoringmatrix_empty_key", lambda: lightmotif.ScoringMatrix({"": [1.0], "A": [1.0]})),
        ("countmatrix_empty_key", lambda: lightmotif.CountMatrix({"": [1], "A": [1]})),
        ("countmatrix_nonascii_key", lambda: lightmotif.CountMatrix({"\u00e9": [1], "A": [1]})),
        ("pvalue_bad_method", lambda: dna.pvalue(1.0, method="nope")),
        ("rc_protein", lambda: prot.reverse_complement()),
        ("load_bad_format", lambda: list(lightmotif.load(io.BytesIO(b""), "nope"))),
        # damaged files: a record that cannot be parsed must raise, not end the iteration early
        ("load_damaged_second_record", lambda: list(lightmotif.load(io.BytesIO(b">M1 a\n1 2\n3 4\n5 6\n7 8\n>M2 b\n1 x\n3 4\n5 6\n7 8\n"), "jaspar"))),
        ("load_damaged_first_record", lambda: list(lightmotif.load(io.BytesIO(b">M1 a\n1 2\n3 y\n5 6\n7 8\n"), "jaspar"))),
        ("load_damaged_jaspar16", lambda: list(lightmotif.load(io.BytesIO(b">M1\nA [ 1 2 ]\nC [ 1 2 ]\nG [ 1 z ]\nT [ 1 2 ]\n"), "jaspar16"))),
        ("load_protein_jaspar", lambda: list(lightmotif.load(io.BytesIO(b""), "jaspar", protein=True))),
        ("load_missing_file", lambda: list(lightmotif.load("/nonexistent/file.jaspar", "jaspar"))),
        ("load_text_file_object", lambda: list(lightmotif.load(io.StringIO("x"), "jaspar"))),
    ]
    # keys that name no symbol in a dict of columns are ignored by the constructors (not an error): only "no panic" is demanded
    lenient = {"scoringmatrix_empty_key", "countmatrix_empty_key", "countmatrix_nonascii_key"}
    for name, f in cases:
        r = call(f)
        rec.emit(dict(ev="py_call", call=name, ret=r[0], msg="" if r[0] == "ok" else r[1], expect="ok_or_exc" if name in lenient else "exc"))
        rec.cls("error_path")


class ShortReads(io.RawIOBase):
    """file object whose read() returns at most `k` bytes at a time"""
    def __init__(self, data, k):
        self.data, self.pos, self.k = data, 0, k

    def readable(self):
        return True

    def read(self, n=-1):
        if n is None or n < 0:
            n = len(self.data)
        n = min(n, self.k)
        out = self.data[self.pos:self.pos + n]
        self.pos += len(out)
        return out


def render(fmt, motifs, rng, protein=False):
    DNA = letters(protein)      # symbol letters of the alphabet in rank order (shadows the module constant on purpose)
    out = []
    for mo in motifs:
        vals, order, m = mo["vals"], mo["order"], len(mo["vals"][0])
        if fmt == "jaspar":
            out.append(">%s%s\n" % (mo["id"], (" " + mo["desc"][0]) if mo["desc"] else ""))
            for j in range(4):
                out.append("\t".join(vals[j]) + "\n")
        elif fmt == "jaspar16":
            out.append(">%s%s\n" % (mo["id"], ("\t" + mo["desc"][0]) if mo["desc"] else ""))
            for j, r in enumerate(order):
                out.append("%s  [ %s ]\n" % (DNA[r], " ".join("%5s" % x for x in vals[j])))
        elif fmt == "transfac":
            out.append("ID  %s\nXX\n" % mo["id"])
            if mo["name"]:
                out.append("NA  %s\nXX\n" % mo["name"][0])
            if mo["desc"]:
                out.append("DE  %s\nXX\n" % mo["desc"][0])
            out.append("P0" + "".join("      %s" % DNA[r] for r in order) + "\n")
            for p in range(m):
                out.append("%02d" % (p + 1) + "".join(" %6s" % vals[j][p] for j in range(len(order))) + "      N\n")
            out.append("XX\n//\n")
        elif fmt == "uniprobe":
            out.append("%s\n" % mo["id"])
            for j, r in enumerate(order):
                out.append("%s:" % DNA[r] + "".join("\t%s" % x for x in vals[j]) + "\n")
            out.append("\n")
    return "".join(out).encode()


def c17_load(rec, rng, thorough):
    n = 96 if thorough else 32
    for it in range(n):
        fmt = ["jaspar", "jaspar16", "transfac", "uniprobe"][it % 4]
        # protein motif files through load(..., protein=True): every format that names its symbols, one file in three
        protein = fmt != "jaspar" and (it // 4) % 3 == 2
        ns = 20 if protein else 4
        nrec = rng.choice([1, 2, 3, 9])
        motifs = []
        for i in range(nrec):
            m = rng.randint(1, 9)
            order = list(range(20)) if protein else [0, 1, 3, 2]
            if fmt != "jaspar" and rng.random() < 0.6:
                rng.shuffle(order)
            if fmt == "uniprobe":
                vals = [[None] * m for _ in range(ns)]
                for p in range(m):
                    parts = [0] * ns
                    for _ in range(64):
                        parts[rng.randrange(ns)] += 1
                    for j in range(ns):
                        vals[j][p] = repr(parts[j] / 64)
            else:
                vals = [[str(rng.randint(0, 200)) for _ in range(m)] for _ in range(ns)]
            motifs.append(dict(id="M%d_%d" % (it, i), acc=[], name=[("NA%d x" % i)] if fmt == "transfac" and rng.random() < 0.5 else [],
                               desc=["some text %d" % i] if fmt != "uniprobe" and rng.random() < 0.6 else [], order=order, vals=vals))
        data = render(fmt, motifs, rng, protein)
        how = it % 3
        e = dict(ev="py_load", fmt=fmt, K=21 if protein else 5, motifs=motifs, how=["path", "bytesio", "short_reads"][how])
        kw = dict(protein=True) if protein else {}

        def run():
            if how == 0:
                with tempfile.NamedTemporaryFile("wb", suffix="." + fmt, delete=False) as f:
                    f.write(data)
                    path = f.name
                try:
                    ms = list(lightmotif.load(path, fmt, **kw))
                finally:
                    os.unlink(path)
            elif how == 1:
                ms = list(lightmotif.load(io.BytesIO(data), fmt, **kw))
            else:
                ms = list(lightmotif.load(ShortReads(data, rng.choice([1, 3, 7])), fmt, **kw))
            out = []
            for mo in ms:
                if fmt == "uniprobe":
                    # weights = frequency / uniform background (0.25, or 0.05 for proteins) : exact for dyadic frequencies
                    mat = [[repr(x / 4) for x in row] for row in rows_of(mo.pwm, len(mo.pwm))] if not protein else \
                          [[repr(round(x / 20 * 64) / 64) for x in row] for row in rows_of(mo.pwm, len(mo.pwm))]
                else:
                    mat = [[str(x) for x in row] for row in rows_of(mo.counts, len(mo.counts))]
                out.append(dict(name=[mo.name] if mo.name is not None else [],
                                desc=[mo.description] if getattr(mo, "description", None) is not None else [],
                                tid=[mo.id] if getattr(mo, "id", None) is not None else [],
                                m=mat))
            return out
        r = call(run)
        if r[0] == "ok":
            e.update(ret="ok", recs=r[1])
        else:
            e.update(ret=r[0], msg=r[1], recs=[])
        rec.emit(e)
        rec.cls("load_" + fmt + ("_protein" if protein else ""))


def record_c17(rec, rng, thorough):
    c17_scoring(rec, rng, thorough)
    c17_scan(rec, rng, thorough)
    c17_create(rec, rng, thorough)
    c17_normalize(rec, rng, thorough)
    c17_pvalues(rec, rng, thorough)
    c17_rc(rec, rng, thorough)
    c17_errors(rec, rng, thorough)
    c17_load(rec, rng, thorough)


# ----------------------------------------------------------------------------- C18

def index_probe(obj, n):
    """results of obj[i] for i in -n-2 .. n+1 : ['ok', value] | ['exc', name] | ['panic', msg]"""
    out = []
    # every index around the object, and a few far outside (still inside the platform's index type: beyond it CPython's
    # own sequences refuse too)
    far = [2 ** 31 - 1, 2 ** 31, -2 ** 31, -2 ** 31 - 1, 2 ** 40, -2 ** 40, 2 ** 62]
    for i in list(range(-n - 2, n + 2)) + far:
        r = call(lambda: obj[i])
        v = r[1]
        if r[0] == "ok":
            if isinstance(v, (list, tuple)):
                v = [quant(x, 4096) if isinstance(x, float) else int(x) for x in v]
            elif isinstance(v, float):
                v = quant(v, 4096)
            else:
                v = int(v)
            out.append(dict(i=max(min(i, 10 ** 9), -10 ** 9), k="ok", v=v))
        else:
            # TLC has 32-bit integers: far indices are logged clamped to +-10^9 (still far outside), the real one as text
            out.append(dict(i=max(min(i, 10 ** 9), -10 ** 9), raw=str(i), k=r[0] if r[1] != "IndexError" else "IndexError", v=r[1]))
    return out


def view_probe(obj, conv):
    def run():
        mv = memoryview(obj)
        lst = mv.tolist()

        def cv(x):
            return [cv(y) for y in x] if isinstance(x, list) else conv(x)
        return dict(format=mv.format, itemsize=mv.itemsize, ndim=mv.ndim, shape=list(mv.shape),
                    strides=list(mv.strides), list=cv(lst))
    return call(run)


def emit_view(rec, kind, logical, r, extra):
    e = dict(ev="py_view", kind=kind, logical=logical)
    e.update(extra)
    if r[0] == "ok":
        e.update(ret="ok", **r[1])
    else:
        e.update(ret=r[0], msg=r[1], format="", itemsize=0, ndim=0, shape=[], strides=[], list=[])
    rec.emit(e)
    rec.cls("view_" + kind)


def record_c18(rec, rng, thorough):
    sizes = list(range(0, 41)) + [63, 64, 65, 100, 200] if thorough else [0, 1, 2, 3, 4, 5, 7, 8, 9, 16, 31, 32, 33, 40, 65, 130, 1024, 1056]
    for L in sizes:
        for protein in (False, True):
            k = len(letters(protein))
            ranks = rand_ranks(rng, L, k)
            # ---- EncodedSequence: index, len, 1-d view
            enc = call(lambda: lightmotif.EncodedSequence(text_of(ranks, protein), protein))
            if enc[0] == "ok":
                enc = enc[1]
                rec.emit(dict(ev="py_index", kind="encoded", logical=ranks, len=call(lambda: len(enc))[1], probes=index_probe(enc, L)))
                rec.cls("index_encoded")
                emit_view(rec, "encoded", ranks, view_probe(enc, int), dict(C=0, R=0))
                # ---- StripedSequence: 2-d view (column, row), before and after look-ahead rows were added
                st = call(lambda: enc.stripe())
                if st[0] == "ok":
                    st = st[1]
                    R = (L + 31) // 32
                    emit_view(rec, "striped", ranks, view_probe(st, int), dict(C=32, R=R, K=k, wrap=0))
                    w = rng.randint(2, 9)
                    rows = rand_pssm(rng, w, k)
                    sc = call(lambda: make_pssm(rows, protein).calculate(st))
                    emit_view(rec, "striped", ranks, view_probe(st, int), dict(C=32, R=R, K=k, wrap=w - 1))
                    # ---- StripedScores: index, len, 2-d view
                    if sc[0] == "ok":
                        sc = sc[1]
                        n = max(L - w + 1, 0)
                        rec.emit(dict(ev="py_index", kind="scores", logical=[], seq=ranks, pssm=rows, K=k, scale=4,
                                      len=call(lambda: len(sc))[1], probes=[dict(p, v=(p["v"] // 1024 if p["k"] == "ok" and abs(p["v"]) < 10 ** 9 else p["v"])) for p in index_probe(sc, n)]))
                        rec.cls("index_scores")
                        emit_view(rec, "scores", [], view_probe(sc, grid), dict(C=32, R=R, K=k, seq=ranks, pssm=rows))
                        # ---- the same striped sequence reused with a SHORTER motif afterwards: indexing and views of the
                        #      new scores (and of the sequence) must still show the logical contents only
                        if w >= 3:
                            w2 = rng.randint(1, w - 2)
                            rows2 = rand_pssm(rng, w2, k)
                            sc2 = call(lambda: make_pssm(rows2, protein).calculate(st))
                            if sc2[0] == "ok":
                                sc2 = sc2[1]
                                n2 = max(L - w2 + 1, 0)
                                rec.emit(dict(ev="py_index", kind="scores", logical=[], seq=ranks, pssm=rows2, K=k, scale=4,
                                              len=call(lambda: len(sc2))[1], probes=[dict(p, v=(p["v"] // 1024 if p["k"] == "ok" and abs(p["v"]) < 10 ** 9 else p["v"])) for p in index_probe(sc2, n2)]))
                                rec.cls("index_scores_after_reuse")
                                emit_view(rec, "scores", [], view_probe(sc2, grid), dict(C=32, R=R, K=k, seq=ranks, pssm=rows2))
                                emit_view(rec, "striped", ranks, view_probe(st, int), dict(C=32, R=R, K=k, wrap=w - 1))
                            else:
                                rec.emit(dict(ev="py_call", call="calculate_after_reuse", ret=sc2[0], msg=sc2[1], expect="ok"))
                        # ---- ... and then with a LONGER motif than any before (look-ahead rows grown a second time)
                        w3 = w + rng.randint(1, 4)
                        rows3 = rand_pssm(rng, w3, k)
                        sc3 = call(lambda: make_pssm(rows3, protein).calculate(st))
                        if sc3[0] == "ok":
                            sc3 = sc3[1]
                            n3 = max(L - w3 + 1, 0)
                            rec.emit(dict(ev="py_index", kind="scores", logical=[], seq=ranks, pssm=rows3, K=k, scale=4,
                                          len=call(lambda: len(sc3))[1], probes=[dict(p, v=(p["v"] // 1024 if p["k"] == "ok" and abs(p["v"]) < 10 ** 9 else p["v"])) for p in index_probe(sc3, n3)]))
                            rec.cls("index_scores_after_longer_motif")
                            emit_view(rec, "scores", [], view_probe(sc3, grid), dict(C=32, R=R, K=k, seq=ranks, pssm=rows3))
                            emit_view(rec, "striped", ranks, view_probe(st, int), dict(C=32, R=R, K=k, wrap=w3 - 1))
                        else:
                            rec.emit(dict(ev="py_call", call="calculate_after_longer_motif", ret=sc3[0], msg=sc3[1], expect="ok"))
    # ---- matrices: widths whose row stride differs from the column count
    widths = list(range(0, 13)) + [16, 31, 40] if thorough else [0, 1, 2, 3, 4, 5, 8, 9, 16, 40]
    for m in widths:
        for protein in (False, True):
            L = letters(protein)
            k = len(L)
            counts = [[rng.randint(0, 9) for _ in range(k)] for _ in range(m)]
            rows = rand_pssm(rng, m, k, wild="rand")
            if m > 0:
                cm = call(lambda: lightmotif.CountMatrix({L[j]: [r[j] for r in counts] for j in range(k)}, protein=protein))
                if cm[0] == "ok":
                    cm = cm[1]
                    rec.emit(dict(ev="py_index", kind="counts", logical=counts, len=call(lambda: len(cm))[1], probes=index_probe(cm, m)))
                    rec.cls("index_counts")
                    wm = call(lambda: cm.normalize())
                    if wm[0] == "ok":
                        wm = wm[1]
                        full = [[quant(x, 4096) for x in wm[i]] for i in range(m)] if m else []
                        rec.emit(dict(ev="py_index", kind="weights", logical=full, len=call(lambda: len(wm))[1], probes=index_probe(wm, m)))
                        rec.cls("index_weights")
                sm = call(lambda: make_pssm(rows, protein))
                if sm[0] == "ok":
                    sm = sm[1]
                    logical = [[quant(ungrid(x), 4096) for x in r] for r in rows]
                    rec.emit(dict(ev="py_index", kind="scoring", logical=logical, len=call(lambda: len(sm))[1], probes=index_probe(sm, m)))
                    rec.cls("index_scoring")
                    emit_view(rec, "scoring", rows, view_probe(sm, grid), dict(C=0, R=0, K=k))
                    if not protein and m <= 5:
                        dist = call(lambda: sm.score_distribution)
                        if dist[0] == "ok":
                            r = view_probe(dist[1], lambda x: quant(x, 2 ** 20))
                            if r[0] == "ok":
                                lst = r[1]["list"]
                                r[1]["list"] = [lst[0], lst[-1], len(lst)] + [1 if all(lst[i] >= lst[i + 1] for i in range(len(lst) - 1)) else 0]
                            emit_view(rec, "sf", [m], r, dict(C=0, R=0, K=k))
                        # the survival function of a reverse complement taken AFTER the forward distribution was
                        # requested, under a strand-asymmetric background: its view must show the table of a matrix
                        # built afresh from the reverse-complemented scores
                        if m >= 1:
                            barg = {"A": 0.5, "C": 0.125, "T": 0.125, "G": 0.25, "N": 0.0}

                            def rc_views():
                                fwd = make_pssm(rows, False, background=barg)
                                memoryview(fwd.score_distribution)
                                rc = fwd.reverse_complement()
                                cells = [[grid(x) for x in rc[i]] for i in range(len(rc))]
                                fresh = make_pssm(cells, False, background=barg)
                                a = memoryview(rc.score_distribution)
                                b = memoryview(fresh.score_distribution)
                                pick = lambda mv: [quant(x, 2 ** 20) for x in mv.tolist()[::37]]
                                return dict(format=a.format, itemsize=a.itemsize, ndim=a.ndim, shape=list(a.shape), strides=list(a.strides),
                                            list=pick(a)), pick(b)
                            r = call(rc_views)
                            if r[0] == "ok":
                                emit_view(rec, "sf_same", r[1][1], ("ok", r[1][0]), dict(C=0, R=0, K=k, M=m))
                            else:
                                emit_view(rec, "sf_same", [], r, dict(C=0, R=0, K=k, M=m))
            else:
                for name, f in [("countmatrix_empty", lambda: memoryview(lightmotif.CountMatrix({L[j]: [] for j in range(k)}, protein=protein))),
                                ("scoringmatrix_empty_view", lambda: memoryview(lightmotif.ScoringMatrix({L[j]: [] for j in range(k)}, protein=protein)).tolist()),
                                ("scoringmatrix_empty_index", lambda: lightmotif.ScoringMatrix({L[j]: [] for j in range(k)}, protein=protein)[0])]:
                    r = call(f)
                    rec.emit(dict(ev="py_call", call=name, ret=r[0], msg="" if r[0] == "ok" else r[1], expect="ok_or_exc"))
                    rec.cls("empty_object")


# ----------------------------------------------------------------------------- entry point

def main(prop, out, seed, thorough):
    rng = random.Random(seed * 1000003 + (17 if prop in ("C17", "C06", "C09", "C10") else 11 if prop in ("C11", "C12", "C13") else 18))
    rec = Rec(out)
    if prop == "C06":
        # object life-cycles through the bindings: scanners that outlive every other reference to their arguments
        c17_scan(rec, rng, thorough)
    elif prop == "C14":
        # loading through Python file objects (every chunking of the stream, short reads included)
        c17_load(rec, rng, thorough)
    elif prop in ("C11", "C12", "C13"):
        # the p-value half of the bindings only (same events, same trace specification as C17)
        c17_pvalues(rec, rng, thorough)
    elif prop == "C09":
        # the conversions count -> frequency -> weight -> log-odds as the bindings expose them (pseudocounts and
        # backgrounds given as numbers or dicts, bases other than 2)
        c17_normalize(rec, rng, thorough)
    elif prop == "C10":
        c17_rc(rec, rng, thorough)
    elif prop == "C17":
        record_c17(rec, rng, thorough)
    elif prop == "C18":
        record_c18(rec, rng, thorough)
    else:
        raise ValueError(prop)
    return rec.finish()
