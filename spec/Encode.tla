-------------------------------- MODULE Encode --------------------------------
(***************************************************************************)
(* C05 - encoding (lightmotif/src/pli/mod.rs Encode, platform/avx2.rs      *)
(* encode_into_avx2, platform/sse2.rs encode_into_sse2, abc.rs).           *)
(*                                                                         *)
(* D-layer: EncodeDef - a byte string is accepted iff every byte is a      *)
(* letter of the alphabet; the result is the rank of every byte; otherwise *)
(* the first offending byte is reported.  Displaying the result gives back *)
(* the input.                                                              *)
(* I-layer: BlockEncode - the vectorised encoders as coded (blocks of W    *)
(* bytes while `i + W <= l` (AVX2) or `i + W < l` (SSE2), per-block        *)
(* unknown mask OR-ed into an error flag, full rescan from the start when  *)
(* the flag is set, scalar encoding of the tail).                          *)
(***************************************************************************)
EXTENDS Naturals, Integers, Sequences

\* alphabets as byte values in rank order
DnaLetters     == <<65, 67, 84, 71, 78>>                                   \* "ACTGN"
ProteinLetters == <<65, 67, 68, 69, 70, 71, 72, 73, 75, 76, 77, 78, 80, 81, 82, 83, 84, 86, 87, 89, 88>>  \* "ACDEFGHIKLMNPQRSTVWYX"

RankTable(letters) ==
  [b \in 0..255 |-> IF \E k \in 1..Len(letters) : letters[k] = b
                    THEN (CHOOSE k \in 1..Len(letters) : letters[k] = b) - 1
                    ELSE -1]
DnaRank     == RankTable(DnaLetters)
ProteinRank == RankTable(ProteinLetters)

\* ---------------------------------------------------------------- D-layer
Bad(bytes, rank) == {i \in 1..Len(bytes) : rank[bytes[i]] = -1}
FirstBad(bytes, rank) == CHOOSE i \in Bad(bytes, rank) : \A j \in Bad(bytes, rank) : i <= j

EncodeDef(bytes, rank) ==
  IF Bad(bytes, rank) = {}
  THEN [ok |-> TRUE, syms |-> [i \in 1..Len(bytes) |-> rank[bytes[i]]], byte |-> -1]
  ELSE [ok |-> FALSE, syms |-> <<>>, byte |-> bytes[FirstBad(bytes, rank)]]

DisplayDef(syms, letters) == [i \in 1..Len(syms) |-> letters[syms[i] + 1]]

\* ---------------------------------------------------------------- I-layer
\* number of bytes handled by the vector loop
RECURSIVE VecEnd(_, _, _, _)
VecEnd(i, l, W, test) ==
  IF (test = "le" /\ i + W <= l) \/ (test = "lt" /\ i + W < l) THEN VecEnd(i + W, l, W, test) ELSE i

BlockEncode(bytes, rank, W, test) ==
  LET l    == Len(bytes)
      v    == VecEnd(0, l, W, test)
      err  == \E i \in 1..v : rank[bytes[i]] = -1              \* OR of the unknown masks of all blocks
      tailBad == {i \in (v + 1)..l : rank[bytes[i]] = -1}
  IN IF err
     THEN \* rescan the whole sequence: first invalid byte overall
          [ok |-> FALSE, syms |-> <<>>, byte |-> bytes[FirstBad(bytes, rank)]]
     ELSE IF tailBad # {}
     THEN [ok |-> FALSE, syms |-> <<>>, byte |-> bytes[CHOOSE i \in tailBad : \A j \in tailBad : i <= j]]
     ELSE [ok |-> TRUE, syms |-> [i \in 1..l |-> rank[bytes[i]]], byte |-> -1]
=============================================================================
