------------------------------- MODULE Striped -------------------------------
(***************************************************************************)
(* C04 - striping (lightmotif/src/seq.rs, pli/mod.rs Stripe,               *)
(* pli/platform/avx2.rs stripe_avx2).                                      *)
(*                                                                         *)
(* A-layer: the observable state of one StripedSequence buffer             *)
(*     [seq, wrap]   (the matrix is a function of the two)                 *)
(* and the public calls stripe / stripe_into / configure_wrap / configure  *)
(* as a total step function StripedStep used by the bounded model and the  *)
(* trace specification.  The properties of C04 are facts about the         *)
(* observation `post` of every call:                                       *)
(*   Layout   rows 0..R-1 hold symbol i at (i mod R, i div R), wildcard    *)
(*            elsewhere                                                    *)
(*   WrapRows look-ahead row k = row k shifted left, wildcard last (k < R) *)
(*   RowCount rows = R + wrap, wrap >= every width requested so far        *)
(*   Index / Count agree with the linear sequence                          *)
(***************************************************************************)
EXTENDS LmBase

StripedInit == [seq |-> <<>>, wrap |-> 0, req |-> 0]

\* o.op in {"stripe", "stripe_into", "configure_wrap"}; o.seq / o.m
\* `req` is the largest look-ahead requested since the last (re)striping.
StripedStep(s, o) ==
  CASE o.op \in {"stripe", "stripe_into"} -> [seq |-> o.seq, wrap |-> 0, req |-> 0]
    [] o.op = "configure_wrap"            -> [s EXCEPT !.req = Max2(s.req, o.m)]

\* What an observation `p` = [len, wrap, rows, index, counts] must satisfy in state s.
\* The number of look-ahead rows is only required to cover every request (>= req).
RowCountOK(s, p, C) == /\ p.len = Len(s.seq)
                       /\ p.wrap >= s.req
                       /\ Len(p.rows) = NRows(Len(s.seq), C) + p.wrap

LayoutOK(s, p, C, W) ==
  \A r \in 1..NRows(Len(s.seq), C) : p.rows[r] = [c \in 1..C |-> StripedCell(s.seq, C, r - 1, c - 1, W)]

\* decisive for k < R (as C04 states it) ...
WrapRowsOK(s, p, C, W) ==
  LET R == NRows(Len(s.seq), C) IN
  \A k \in 1..Min2(p.wrap, R) :
     p.rows[R + k] = [c \in 1..C |-> IF c < C THEN p.rows[k][c + 1] ELSE W]

\* ... and the same relation read on matrix rows for deeper look-ahead (k >= R);
\* scoring relies on it (decided through C01), here it is reported as a note only.
DeepWrapOK(s, p, C, W) ==
  LET R == NRows(Len(s.seq), C) IN
  \A k \in (R + 1)..p.wrap :
     p.rows[R + k] = [c \in 1..C |-> IF c < C THEN p.rows[k][c + 1] ELSE W]

IndexOK(s, p)  == \A q \in 1..Len(p.index) : p.index[q][2] = s.seq[p.index[q][1] + 1]
CountOK(s, p, K) == p.counts = Counts(s.seq, K)

ObsOK(s, p, C, K) ==
  /\ RowCountOK(s, p, C)
  /\ LayoutOK(s, p, C, K - 1)
  /\ WrapRowsOK(s, p, C, K - 1)
  /\ IndexOK(s, p)
  /\ CountOK(s, p, K)

Why(s, p, C, K) ==
  IF ~RowCountOK(s, p, C) THEN "row_count"
  ELSE IF ~LayoutOK(s, p, C, K - 1) THEN "layout"
  ELSE IF ~WrapRowsOK(s, p, C, K - 1) THEN "wrap_rows"
  ELSE IF ~IndexOK(s, p) THEN "index"
  ELSE IF ~CountOK(s, p, K) THEN "count"
  ELSE "ok"
=============================================================================
