-------------------------------- MODULE Extras --------------------------------
(***************************************************************************)
(* Behaviour of althonos/lightmotif beyond the 19 listed properties,       *)
(* specified the same way (D-layer definitions, checked on recorded        *)
(* executions by spec/trace/Trace_Extras.tla).  Deviations from these are  *)
(* reported as EXTRA-DEVIATION lines by `./check extras`, never as a       *)
(* VIOLATION of a listed property.                                         *)
(*                                                                         *)
(*  BgFromCounts    Background::from_sequence(s): symbol frequencies of    *)
(*                  the counted symbols (wildcard only when `unknown`)     *)
(*  ConsensusOK     CountMatrix::consensus: a most frequent symbol of each *)
(*                  row, lower case iff the row entropy is >= 1 bit        *)
(*  EntropyOK       CountMatrix::entropy: -sum p log2 p (fixed point)      *)
(*  SampleOK        EncodedSequence / StripedSequence::sample: requested   *)
(*                  length, only symbols of non-zero background frequency  *)
(*  IterOK          StripedScores::iter is exact-size and double-ended:    *)
(*                  reversed iteration = reversed position order           *)
(*  HitOrderOK      scan::Hit is ordered by (score, position)              *)
(*  ScaleBracketOK  DiscreteMatrix: unscale(scale(x)) <= x (+1 step above) *)
(***************************************************************************)
EXTENDS Pwm

\* counts of the symbols of several sequences (ranks 0..K-1)
RECURSIVE Concat(_)
Concat(ss) == IF ss = <<>> THEN <<>> ELSE Head(ss) \o Concat(Tail(ss))
CountAll(seqs, K) == Counts(Concat(seqs), K)
\* numerators over the total of the counted symbols
BgCounted(seqs, K, unknown) == [k \in 1..K |-> IF k = K /\ ~unknown THEN 0 ELSE CountAll(seqs, K)[k]]

\* entropy of a count row times 1024 times its total:  sum c (Lg(n) - Lg(c))
EntropyScaled(row, K) ==
  LET n == PlainSum(row, K) IN PlainSum([k \in 1..K |-> IF row[k] = 0 THEN 0 ELSE row[k] * (Lg(n) - Lg(row[k]))], K)
RowTotal(row, K) == PlainSum(row, K)
=============================================================================
