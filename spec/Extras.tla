-------------------------------- MODULE Extras --------------------------------
(***************************************************************************)
(* Behaviour of althonos/lightmotif beyond the 19 listed properties,       *)
(* specified the same way (D-layer definitions, checked on recorded        *)
(* executions by spec/trace/Trace_Extras.tla).  Deviations from these are  *)
(* reported as EXTRA-DEVIATION lines by `./check extras`, never as a       *)
(* VIOLATION of a listed property.                                         *)
(*                                                                         *)
(*  BgFromCounts    Background::from_sequence(s): symbol frequencies of    *)
(*                  the counted symbols (wildcard only when `unknown`)     *)
(*  ConsensusOK     CountMatrix::consensus: a most frequent symbol of each *)
(*                  row, lower case iff the row entropy is >= 1 bit        *)
(*  EntropyOK       CountMatrix::entropy: -sum p log2 p (fixed point)      *)
(*  SampleOK        EncodedSequence / StripedSequence::sample: requested   *)
(*                  length, only symbols of non-zero background frequency  *)
(*  IterOK          StripedScores::iter is exact-size and double-ended:    *)
(*                  reversed iteration = reversed position order           *)
(*  HitOrderOK      scan::Hit is ordered by (score, position)              *)
(*  ScaleBracketOK  DiscreteMatrix: unscale(scale(x)) <= x (+1 step above) *)
(*  AlphabetOK      letters / ranks / characters round trip, exactly the   *)
(*                  upper-case letters are accepted, the wildcard is the   *)
(*                  last and the default symbol, uniform background and    *)
(*                  scalar pseudocounts leave the wildcard at 0, the DNA   *)
(*                  complement is the Watson-Crick involution              *)
(*  InfoContent     WeightMatrix::information_content = sum f log2(f / b)  *)
(*  ScannerDefaults threshold 0 and any builder order: hits = positions    *)
(*                  scoring >= threshold with their scores                 *)
(*  SequenceApiOK   EncodedSequence / StripedSequence as containers        *)
(***************************************************************************)
EXTENDS Pwm

\* counts of the symbols of several sequences (ranks 0..K-1)
RECURSIVE Concat(_)
Concat(ss) == IF ss = <<>> THEN <<>> ELSE Head(ss) \o Concat(Tail(ss))
CountAll(seqs, K) == Counts(Concat(seqs), K)
\* numerators over the total of the counted symbols
BgCounted(seqs, K, unknown) == [k \in 1..K |-> IF k = K /\ ~unknown THEN 0 ELSE CountAll(seqs, K)[k]]

\* entropy of a count row times 1024 times its total:  sum c (Lg(n) - Lg(c))
EntropyScaled(row, K) ==
  LET n == PlainSum(row, K) IN PlainSum([k \in 1..K |-> IF row[k] = 0 THEN 0 ELSE row[k] * (Lg(n) - Lg(row[k]))], K)
RowTotal(row, K) == PlainSum(row, K)

\* ---------------------------------------------------------------- alphabets
Distinct(sq) == \A i, j \in 1..Len(sq) : i # j => sq[i] # sq[j]
SeqSet(sq) == {sq[i] : i \in 1..Len(sq)}
AlphabetOK(e) ==
  LET K == e.K  u == e.uniform IN
  /\ Len(e.letters) = K /\ Distinct(e.letters)
  /\ \A i \in 1..K : e.letters[i] >= 65 /\ e.letters[i] <= 90            \* upper-case ASCII letters
  /\ e.idx = [i \in 1..K |-> i - 1]                                      \* symbols() lists the symbols in rank order
  /\ e.ascii = e.letters                                                 \* symbol of rank i is written letters[i]
  /\ e.back = [i \in 1..K |-> i - 1]                                     \* and read back from it
  /\ SeqSet(e.accepted) = SeqSet(e.letters) /\ Len(e.accepted) = K        \* nothing else is accepted (no lower case)
  /\ e.nonascii_rejected
  /\ e.default = K - 1                                                   \* the wildcard: last rank, default symbol
  /\ \A k \in 1..(K - 1) : QNear(u[k], 1, K - 1, 4096, 1)
  /\ u[K] = 0 /\ e.default_bg = u /\ e.bg_index = u
  /\ e.pseudo_half = [k \in 1..K |-> IF k = K THEN 0 ELSE 2048]
  /\ e.pseudo_default = [k \in 1..K |-> 0]
  /\ (e.comp # <<>> =>
        /\ \A k \in 1..K : e.comp[e.comp[k] + 1] = k - 1                  \* involution
        /\ \A k \in 1..K : <<e.letters[k], e.letters[e.comp[k] + 1]>> \in
               {<<65, 84>>, <<84, 65>>, <<67, 71>>, <<71, 67>>, <<78, 78>>})

\* ---------------------------------------------------------------- information content
\* 1024 * sum_i sum_k f log2(f (K-1)) with f = (c + p) / row total, uniform background
InfoRow(row, pn, pd, K) ==
  LET fd == FreqDen(row, pn, pd, K) IN
  PlainSum([k \in 1..K |-> LET fnum == FreqNum(row, pn, pd, k) IN
              IF k = K \/ fnum = 0 THEN 0 ELSE (fnum * (Lg(fnum) - Lg(fd) + Lg(K - 1))) \div fd], K)
InfoContent(m, pn, pd, K) == PlainSum([i \in 1..Len(m) |-> InfoRow(m[i], pn, pd, K)], Len(m))
=============================================================================
