------------------------------ MODULE TraceKit ------------------------------
(***************************************************************************)
(* Generic trace-validation driver shared by every spec/trace/Trace_*.tla. *)
(*                                                                         *)
(* The recorded execution is an ndjson file (one event per line, path in   *)
(* the environment variable TRACE).  Events are grouped in independent     *)
(* histories separated by {"ev":"reset"} lines.  The instantiating module  *)
(* supplies                                                                *)
(*    Rec              == ndJsonDeserialize(IOEnv.TRACE), defined in the   *)
(*                     root module so that TLC evaluates it only once      *)
(*    InitState        the abstract state at the start of a history        *)
(*    Apply(st, e)     the A-layer step for event e in state st:           *)
(*                     [ok |-> BOOLEAN, st |-> next state, exp |-> value]  *)
(*                     ok = "the recorded observation is the one the       *)
(*                     specification allows"; exp = what it expected       *)
(*                     (printed in the diagnostic).                        *)
(* Because every observable result is logged, Apply is a function of       *)
(* (state, event) and the trace spec is linear.  A rejected event does not *)
(* stop validation: the diagnostic is appended to TLC register 1, the rest *)
(* of that history is skipped and validation resumes at the next reset, so *)
(* (An accepted step may carry an advisory `note` field; the first 20 are  *)
(* printed as `NOTE {json}` lines and never count as a rejection.)         *)
(* that the remainder of the trace is still checked.                       *)
(* The POSTCONDITION prints one `REJECT {json}` line per rejected history  *)
(* and one `DONE <next line> <#histories> <#events applied>` line.         *)
(***************************************************************************)
EXTENDS Naturals, Sequences, TLC, Json, IOUtils

CONSTANTS Apply(_, _), InitState, Rec

VARIABLES l, st

N   == Len(Rec)

RECURSIVE NextReset(_)
NextReset(i) == IF i > N THEN i
                ELSE IF Rec[i].ev = "reset" THEN i ELSE NextReset(i + 1)

TKInit == /\ l = 1
          /\ st = InitState
          /\ TLCSet(1, <<>>)
          /\ TLCSet(2, 1)
          /\ TLCSet(3, 0)
          /\ TLCSet(4, 0)
          /\ TLCSet(5, <<>>)

TKNext ==
  /\ l <= N
  /\ LET e == Rec[l] IN
       IF e.ev = "reset"
       THEN /\ l' = l + 1
            /\ st' = InitState
            /\ TLCSet(3, TLCGet(3) + 1)
       ELSE LET r == IF e.ev = "uncaught_panic"          \* a panic that escaped every guarded call of the recorder: no
                     THEN [ok |-> FALSE, st |-> st,     \* specification has such an action, whatever the property
                           exp |-> [why |-> "panic_outside_a_guarded_call"]]
                     ELSE Apply(st, e) IN
              IF r.ok
              THEN /\ l' = l + 1
                   /\ st' = r.st
                   /\ TLCSet(4, TLCGet(4) + 1)
                   /\ IF "note" \in DOMAIN r /\ r.note # "" /\ Len(TLCGet(5)) < 20
                      THEN TLCSet(5, Append(TLCGet(5), [line |-> l, note |-> r.note]))
                      ELSE TRUE
              ELSE /\ TLCSet(1, Append(TLCGet(1), [line |-> l, exp |-> r.exp]))
                   /\ l' = NextReset(l + 1)
                   /\ st' = InitState
  /\ TLCSet(2, l')

TKSpec == TKInit /\ [][TKNext]_<<l, st>>

TKPost ==
  /\ \A i \in 1..Len(TLCGet(1)) : PrintT("REJECT " \o ToJson(TLCGet(1)[i]))
  /\ \A i \in 1..Len(TLCGet(5)) : PrintT("NOTE " \o ToJson(TLCGet(5)[i]))
  /\ PrintT("DONE " \o ToString(TLCGet(2)) \o " " \o ToString(TLCGet(3)) \o " " \o ToString(TLCGet(4)))
=============================================================================
