-------------------------------- MODULE Scores --------------------------------
(***************************************************************************)
(* StripedScores (lightmotif/src/scores.rs): the object every scoring call *)
(* fills and every reduction reads.  It is a rows x C table of cells plus  *)
(* the number of valid positions (`max_index`); position i lives in row    *)
(* i mod R, column i div R (column-major, like the striped sequence).      *)
(*                                                                         *)
(* D-layer : Linear(sc) - the scores as the caller sees them: positions    *)
(*           0 .. min(max_index, R C) - 1 in order.                        *)
(* A-layer : one total step function ScoresStep(st, op) over              *)
(*           st = [m |-> rows, mi |-> max_index], shared by the bounded    *)
(*           model (spec/mc/MC_Scores) and the trace specification         *)
(*           (spec/trace/Trace_Scores):                                    *)
(*             resize(r, mi)   keeps the old rows, new rows hold 0,        *)
(*                             records mi whatever it is (the accessors    *)
(*                             is_empty / max_index are bound to the code  *)
(*                             as behaviour beyond the listed properties,  *)
(*                             see Trace_Extras: the properties only need  *)
(*                             min(mi, R C))                               *)
(*             set / fill      through matrix_mut()                        *)
(*             observations    len, unstripe and                           *)
(*                             Vec::from (= Linear), Index (any cell of    *)
(*                             the table, valid position or not),          *)
(*                             offset(row, col), iteration from both ends  *)
(*                             (one exact-size iterator, next / next_back /*)
(*                             nth / nth_back), maximum and threshold over *)
(*                             ALL cells of the table (what C07 states).   *)
(* I-layer : the iterator as coded (a range of indices, each mapped to a   *)
(*           cell by one division) and, as negative control, the variant   *)
(*           with two coordinate cursors whose back cursor starts in       *)
(*           column end div R (seeded change C10-r5b); see MC_Scores.      *)
(***************************************************************************)
EXTENDS LmBase

NoneS == -1       \* "nothing yielded" marker of the iteration requests (cell values are >= 0)

RowsOf(st) == Len(st.m)
Cells(st, C) == RowsOf(st) * C
\* number of valid positions the object reports through its iterator
NValid(st, C) == IF st.mi < Cells(st, C) THEN st.mi ELSE Cells(st, C)
CellAtPos(st, i) == st.m[(i % RowsOf(st)) + 1][(i \div RowsOf(st)) + 1]      \* i = 0-based position, R > 0
Linear(st, C) == [i \in 1..NValid(st, C) |-> CellAtPos(st, i - 1)]

ResizeRows(m, C, r) == [i \in 1..r |-> IF i <= Len(m) THEN m[i] ELSE [j \in 1..C |-> 0]]

\* requests <<end, k>> on ONE iterator over the sequence s (k = 0: next / next_back, k > 0: nth(k) / nth_back(k))
RECURSIVE ScWalk(_, _, _, _, _)
ScWalk(s, pat, q, f, b) ==
  IF q > Len(pat) THEN [y |-> <<>>, n |-> b - f]
  ELSE LET k == pat[q][2] IN
       IF b - f > k
       THEN IF pat[q][1] = "f"
            THEN LET r == ScWalk(s, pat, q + 1, f + k + 1, b) IN [y |-> <<s[f + k + 1]>> \o r.y, n |-> r.n]
            ELSE LET r == ScWalk(s, pat, q + 1, f, b - k - 1) IN [y |-> <<s[b - k]>> \o r.y, n |-> r.n]
       ELSE LET r == ScWalk(s, pat, q + 1, b, b) IN [y |-> <<NoneS>> \o r.y, n |-> r.n]

AllCells(st, C) == {st.m[i][j] : i \in 1..RowsOf(st), j \in 1..C}
\* offsets (col * R + row) of the cells holding at least t, ascending
OffsetsAtLeast(st, C, t) ==
  LET R == RowsOf(st)
      S == {(j - 1) * R + (i - 1) : i \in 1..R, j \in 1..C}
      hit == {x \in S : st.m[(x % R) + 1][(x \div R) + 1] >= t}
  IN [q \in 1..Cardinality(hit) |-> CHOOSE x \in hit : Cardinality({y \in hit : y < x}) = q - 1]

ScoresStep(st, o, C) ==
  CASE o.op = "resize"   -> LET nx == [m |-> ResizeRows(st.m, C, o.r), mi |-> o.mi] IN
                            [st |-> nx, obs |-> NValid(nx, C)]                                          \* len of the linear view
    [] o.op = "set"      -> [st |-> [st EXCEPT !.m[o.i][o.j] = o.v], obs |-> NValid(st, C)]
    [] o.op = "fill"     -> [st |-> [st EXCEPT !.m = [i \in 1..RowsOf(st) |-> [j \in 1..C |-> o.v]]], obs |-> NValid(st, C)]
    [] o.op = "is_empty" -> [st |-> st, obs |-> IF RowsOf(st) = 0 THEN 1 ELSE 0]                        \* no rows (whatever the recorded length)
    [] o.op = "max_index"-> [st |-> st, obs |-> st.mi]                                                  \* the recorded length as given, not clamped
    [] o.op = "unstripe" -> [st |-> st, obs |-> Linear(st, C)]
    [] o.op = "index"    -> [st |-> st, obs |-> CellAtPos(st, o.i)]
    [] o.op = "offset"   -> [st |-> st, obs |-> (o.j - 1) * RowsOf(st) + (o.i - 1)]
    [] o.op = "iter_ends"-> [st |-> st, obs |-> ScWalk(Linear(st, C), o.pat, 1, 0, NValid(st, C))]
    [] o.op = "max"      -> [st |-> st, obs |-> IF RowsOf(st) = 0 THEN <<>> ELSE <<SetMax(AllCells(st, C))>>]
    [] o.op = "threshold"-> [st |-> st, obs |-> OffsetsAtLeast(st, C, o.t)]

\* in-contract operations (cells inside the table; Index inside the table)
ScoresInContract(st, o, C) ==
  CASE o.op = "set"    -> o.i \in 1..RowsOf(st) /\ o.j \in 1..C
    [] o.op = "offset" -> o.i \in 1..RowsOf(st) /\ o.j \in 1..C
    [] o.op = "index"  -> RowsOf(st) > 0 /\ o.i >= 0 /\ o.i < Cells(st, C)
    [] OTHER           -> TRUE

\* arg-maximum is a relation: the offset of ANY cell holding the maximum (none for a table without rows)
ArgmaxOffsetOK(st, C, obs) ==
  IF RowsOf(st) = 0 THEN obs = <<>>
  ELSE /\ Len(obs) = 1 /\ obs[1] >= 0 /\ obs[1] < Cells(st, C)
       /\ CellAtPos(st, obs[1]) = SetMax(AllCells(st, C))

ScoresInit == [m |-> <<>>, mi |-> 0]

\* ------------------------------------------------------------------ I-layer: the iterator as coded
\* a range of indices f .. b - 1; a position is mapped to its cell only when it is yielded.  `Cursors = TRUE` is the
\* coordinate-cursor variant whose back cursor starts in column (end div R) instead of ((end - 1) div R): every position
\* read from the back is then one column too far exactly when `end` is a multiple of R (reads past the table yield the
\* marker 99, standing for the out-of-bounds panic)
BackCell(st, C, i, Cursors) ==
  LET R == RowsOf(st)
      e == NValid(st, C)
      shift == IF Cursors THEN (e \div R) - ((e - 1) \div R) ELSE 0
      p == i + shift * R
  IN IF p < Cells(st, C) THEN CellAtPos(st, p) ELSE 99

RECURSIVE IWalk(_, _, _, _, _, _, _)
IWalk(st, C, pat, q, f, b, Cursors) ==
  IF q > Len(pat) THEN [y |-> <<>>, n |-> b - f]
  ELSE LET k == pat[q][2] IN
       IF b - f > k
       THEN IF pat[q][1] = "f"
            THEN LET r == IWalk(st, C, pat, q + 1, f + k + 1, b, Cursors) IN [y |-> <<CellAtPos(st, f + k)>> \o r.y, n |-> r.n]
            ELSE LET r == IWalk(st, C, pat, q + 1, f, b - k - 1, Cursors) IN [y |-> <<BackCell(st, C, b - k - 1, Cursors)>> \o r.y, n |-> r.n]
       ELSE LET r == IWalk(st, C, pat, q + 1, b, b, Cursors) IN [y |-> <<NoneS>> \o r.y, n |-> r.n]
=============================================================================
