-------------------------------- MODULE Dense --------------------------------
(***************************************************************************)
(* C19 - dense matrix storage (lightmotif/src/dense.rs).                   *)
(*                                                                         *)
(* D-layer : a matrix is a sequence of rows, each a sequence of C cells.   *)
(* A-layer : two named matrices "a" and "b" (so that clone and equality    *)
(*           can be stated) and one total step function DenseStep(st, op)  *)
(*           used both by the bounded model (spec/mc/MC_Dense) and by the  *)
(*           trace specification (spec/trace/Trace_C19).                   *)
(* I-layer : the storage as coded: a vector of `stride`-wide rows whose    *)
(*           padding cells hold garbage; see spec/mc/MC_Dense.             *)
(***************************************************************************)
EXTENDS Naturals, Integers, Sequences

\* ---------------------------------------------------------------- D-layer
ConstRow(C, v)       == [j \in 1..C |-> v]
ConstRows(C, n, v)   == [i \in 1..n |-> ConstRow(C, v)]
ResizeTo(m, C, n, d) == [i \in 1..n |-> IF i <= Len(m) THEN m[i] ELSE ConstRow(C, d)]
SetCell(m, i, j, v)  == [m EXCEPT ![i][j] = v]
SetRowOf(m, i, r)    == [m EXCEPT ![i] = r]
Reversed(m)          == [i \in 1..Len(m) |-> m[Len(m) + 1 - i]]
Bump(m, K)           == [i \in 1..Len(m) |-> [j \in 1..Len(m[i]) |-> (m[i][j] + 1) % K]]

\* Iteration from both ends (DoubleEndedIterator): `pat` is a sequence of front ("f") / back ("b") requests on ONE
\* iterator; each request yields the next row from that end while rows remain between the two cursors and nothing
\* (<<>>) afterwards; every row is yielded at most once.  Returns the yields and the iterator's remaining length.
\* a request is <<end, k>>: k = 0 is next / next_back, k > 0 is nth(k) / nth_back(k) (skip k rows from that end first;
\* when fewer than k + 1 rows remain the iterator is exhausted and nothing is yielded)
RECURSIVE EndsWalk(_, _, _, _, _)
EndsWalk(m, pat, q, f, b) ==
  IF q > Len(pat) THEN [y |-> <<>>, n |-> b - f]
  ELSE LET k == pat[q][2] IN
       IF b - f > k
       THEN IF pat[q][1] = "f"
            THEN LET r == EndsWalk(m, pat, q + 1, f + k + 1, b) IN [y |-> <<m[f + k + 1]>> \o r.y, n |-> r.n]
            ELSE LET r == EndsWalk(m, pat, q + 1, f, b - k - 1) IN [y |-> <<m[b - k]>> \o r.y, n |-> r.n]
       ELSE LET r == EndsWalk(m, pat, q + 1, b, b) IN [y |-> <<<<>>>> \o r.y, n |-> r.n]
IterEnds(m, pat) == EndsWalk(m, pat, 1, 0, Len(m))

\* Layout facts of C19: the stride (in elements of sz bytes) is at least the
\* column count and a whole number of alignment units, every row starts on an
\* A-byte boundary and consecutive rows are one stride apart.
LayoutOK(C, sz, A, stride, pmods, pdeltas) ==
  /\ stride >= C
  /\ (stride * sz) % A = 0
  /\ \A i \in 1..Len(pmods)   : pmods[i] = 0
  /\ \A i \in 1..Len(pdeltas) : pdeltas[i] = stride * sz

\* ---------------------------------------------------------------- A-layer
\* st = [a |-> matrix, b |-> matrix]; op = record with field `op`.
\* DenseStep returns [st |-> next state, obs |-> observable result].
\* `K` is the modulus of the cell values used by the drivers (cells in 0..K-1),
\* `d` the default value of the element type (0).
Other(t) == IF t = "a" THEN "b" ELSE "a"

DenseStep(st, o, C, K) ==
  LET m == st[o.tgt] IN
  CASE o.op = "new"           -> [st |-> [st EXCEPT ![o.tgt] = ConstRows(C, o.r, 0)], obs |-> o.r]
    [] o.op = "with_capacity" -> [st |-> [st EXCEPT ![o.tgt] = ConstRows(C, o.r, 0)], obs |-> o.r]
    [] o.op = "resize"        -> [st |-> [st EXCEPT ![o.tgt] = ResizeTo(m, C, o.r, 0)], obs |-> o.r]
    [] o.op = "reserve"       -> [st |-> st, obs |-> Len(m)]
    [] o.op = "set"           -> [st |-> [st EXCEPT ![o.tgt] = SetCell(m, o.i, o.j, o.v)], obs |-> Len(m)]
    [] o.op = "set_row"       -> [st |-> [st EXCEPT ![o.tgt] = SetRowOf(m, o.i, o.row)], obs |-> Len(m)]
    [] o.op = "fill"          -> [st |-> [st EXCEPT ![o.tgt] = ConstRows(C, Len(m), o.v)], obs |-> Len(m)]
    [] o.op = "from_rows"     -> [st |-> [st EXCEPT ![o.tgt] = o.rows], obs |-> Len(o.rows)]
    \* from_rows over the OTHER matrix's own row iterator (any exact-size iterator of rows is a legal argument)
    [] o.op = "from_rows_other" -> [st |-> [st EXCEPT ![o.tgt] = st[Other(o.tgt)]], obs |-> Len(st[Other(o.tgt)])]
    [] o.op = "clone_to_other"-> [st |-> [st EXCEPT ![Other(o.tgt)] = m], obs |-> Len(m)]
    [] o.op = "clone_from"    -> [st |-> [st EXCEPT ![Other(o.tgt)] = m], obs |-> Len(m)]   \* other.clone_from(&m): reuses other's storage
    [] o.op = "iter_ends"     -> [st |-> st, obs |-> IterEnds(m, o.pat)]                     \* iter() or iter_mut() (o.mutable), no writes
    [] o.op = "iter_mut_bump" -> [st |-> [st EXCEPT ![o.tgt] = Bump(m, K)], obs |-> Len(m)]
    [] o.op = "iter"          -> [st |-> st, obs |-> m]
    [] o.op = "iter_rev"      -> [st |-> st, obs |-> Reversed(m)]
    [] o.op = "iter_len"      -> [st |-> st, obs |-> Len(m)]
    [] o.op = "get"           -> [st |-> st, obs |-> m[o.i][o.j]]
    [] o.op = "eq"            -> [st |-> st, obs |-> (st.a = st.b)]
    \* a coordinate outside the rows x columns table is refused (the call panics), whatever memory lies behind it:
    \* nothing is returned and nothing changes
    [] o.op \in {"get_oob", "set_oob"} -> [st |-> st, obs |-> "refused"]

\* which operations are in contract in a given state (indices inside the table)
InContract(st, o, C) ==
  LET m == st[o.tgt] IN
  CASE o.op \in {"set", "get"} -> o.i \in 1..Len(m) /\ o.j \in 1..C
    [] o.op \in {"get_oob", "set_oob"} -> ~(o.i \in 1..Len(m) /\ o.j \in 1..C) /\ o.i >= 1 /\ o.j >= 1
    [] o.op = "set_row"        -> o.i \in 1..Len(m) /\ Len(o.row) = C
    [] o.op = "from_rows"      -> \A i \in 1..Len(o.rows) : Len(o.rows[i]) = C
    [] OTHER                   -> TRUE

DenseInit == [a |-> <<>>, b |-> <<>>]
=============================================================================
