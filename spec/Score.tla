-------------------------------- MODULE Score --------------------------------
(***************************************************************************)
(* C01 - PSSM scoring (pli/mod.rs Score, platform/{avx2,sse2}.rs score_*,  *)
(* pwm/mod.rs ScoringMatrix::{score, score_position}, scores.rs).          *)
(*                                                                         *)
(* D-layer: LmBase!WindowScore, NScores.                                   *)
(* I-layer: KernelCell - the column-wise kernel as coded: for striped row  *)
(* r and column c it adds pssm[j][data[r + j][c]] for j < M, reading the   *)
(* striped matrix (sequence rows + look-ahead rows).                       *)
(* A-layer facts about one scoring call on rows a..b-1 (0-based, half      *)
(* open) of a sequence striped over C columns with R rows:                 *)
(*   ShapeOK  L < M or a = b : no rows, nothing to iterate                 *)
(*            otherwise      : b - a rows, max_index = L - M + 1 as far as *)
(*                             the table can hold it (a sub-range of rows  *)
(*                             holds fewer positions; what the accessor    *)
(*                             reports beyond the table is no part of C01) *)
(*   CellsOK  cell (r - a, c) = WindowScore(c*R + r) for every valid       *)
(*            position c*R + r <= L - M                                    *)
(*   PadInv   (second sentence of C07) if the wildcard column is -inf,     *)
(*            every cell past the last valid position is -inf              *)
(*   UnstripeOK  (full scans) iteration yields WindowScore(0..L-M)         *)
(***************************************************************************)
EXTENDS LmBase

\* I-layer: what the kernel computes for cell (r, c) from the striped matrix `data`
RECURSIVE KernelFrom(_, _, _, _, _)
KernelFrom(pssm, data, r, c, j) ==
  IF j > Len(pssm) THEN 0
  ELSE Add(pssm[j][data[r + j][c + 1] + 1], KernelFrom(pssm, data, r, c, j + 1))
KernelCell(pssm, data, r, c) == KernelFrom(pssm, data, r, c, 1)     \* r, c 0-based

WildcardNinf(pssm, K) == \A j \in 1..Len(pssm) : pssm[j][K] = NINF

\* e = [seq, pssm, C, K, a, b, nrows, max_index, cells]
ShapeOK(e) ==
  LET L == Len(e.seq)  M == Len(e.pssm) IN
  IF L < M \/ e.a >= e.b
  THEN e.nrows = 0 /\ e.cells = <<>>
  ELSE /\ e.nrows = e.b - e.a /\ Len(e.cells) = e.nrows
       /\ LET cap == e.nrows * e.C  n == L - M + 1 IN
            (IF e.max_index < cap THEN e.max_index ELSE cap) = (IF n < cap THEN n ELSE cap)

BadCells(e) ==
  LET L == Len(e.seq)  M == Len(e.pssm)  R == NRows(L, e.C)  W == e.K - 1 IN
  {rc \in (1..e.nrows) \X (1..e.C) :
     LET i == (rc[2] - 1) * R + (e.a + rc[1] - 1) IN
       IF i <= L - M
       THEN e.cells[rc[1]][rc[2]] # WindowScore(e.pssm, e.seq, i, W)
       ELSE WildcardNinf(e.pssm, e.K) /\ e.cells[rc[1]][rc[2]] # NINF}

\* cells past the last valid position that differ from what the reference kernel yields
\* (advisory: C01 does not constrain them beyond PadInv)
OddPadCells(e) ==
  LET L == Len(e.seq)  M == Len(e.pssm)  R == NRows(L, e.C)  W == e.K - 1 IN
  {rc \in (1..e.nrows) \X (1..e.C) :
     LET i == (rc[2] - 1) * R + (e.a + rc[1] - 1) IN
       i > L - M /\ e.cells[rc[1]][rc[2]] # WindowScore(e.pssm, e.seq, i, W)}

UnstripeDef(pssm, seq, W) == [i \in 1..NScores(Len(seq), Len(pssm)) |-> WindowScore(pssm, seq, i - 1, W)]
=============================================================================
