------------------------------- MODULE MC_Tfm -------------------------------
(***************************************************************************)
(* Bounded exhaustive refinement check for C12: for every matrix over      *)
(* CellVals (units 1/4) of width 2..MaxM over two symbols, the two         *)
(* backgrounds, every admissible row permutation, granularity 1/GI and     *)
(* every query score on the 1/8 grid from below the minimum to above the   *)
(* maximum, the range computed by the TFM-PVALUE look-up (Tfm!LookupPv)    *)
(* satisfies                                                               *)
(*    0 <= pmin <= pmax <= 1,                                              *)
(*    P(S >= s + (M+1) g) <= pmin,   pmax <= P(S >= s - (M+2) g)           *)
(* against the exact tail (Dist!ConvDist).  SeedFromRow0 = TRUE is the     *)
(* originally coded look-up (negative control).  With Bgs <- WildBgs the   *)
(* wildcard has a background frequency: the repaired bucket (suffix mass)  *)
(* holds, Tfm!BucketAsCoded <- AsCodedTrue is the negative control.        *)
(***************************************************************************)
EXTENDS Tfm, TLC

CONSTANTS MaxM, CellVals, GI, SeedFromRow0

VARIABLES m, bn, p, s8

K == 3
Bgs == {<<1, 1, 0>>, <<3, 1, 0>>}
\* backgrounds that give the wildcard a frequency of its own (its scores are -inf: a word holding it has no score)
WildBgs == {<<2, 1, 1>>, <<1, 1, 2>>}
AsCodedTrue == TRUE
WildWitness == {<< <<0, 6, NINF>>, <<0, 5, NINF>>, <<1, 3, NINF>> >>, << <<0, 6, NINF>>, <<0, 6, NINF>>, <<0, 6, NINF>> >>}
RowsV == {<<x, y, NINF>> : x \in CellVals, y \in CellVals}
Mats == UNION {[1..n -> RowsV] : n \in 2..MaxM}

Init == m = <<>> /\ bn = <<>> /\ p = <<>> /\ s8 = 0
PickMatrix == /\ m = <<>>
              /\ \E mm \in Mats : m' = mm /\ p' \in Perms(mm, K)
              /\ bn' \in Bgs /\ s8' = 0
Double(mm) == [i \in 1..Len(mm) |-> [k \in 1..Len(mm[i]) |-> IF mm[i][k] = NINF THEN NINF ELSE 2 * mm[i][k]]]
PickScore == /\ m # <<>> /\ s8 = 0
             /\ LET D8 == ConvDist(Double(m), bn, K) IN
                s8' \in ((SetMin(DOMAIN D8) - 5)..(SetMax(DOMAIN D8) + 5)) \ {0}
             /\ UNCHANGED <<m, bn, p>>
Next == PickMatrix \/ PickScore
Spec == Init /\ [][Next]_<<m, bn, p, s8>>

RangeOK == (m # <<>> /\ s8 # 0) =>
  LET M == Len(m)
      bd == PlainSum(bn, K)
      D8 == ConvDist(Double(m), bn, K)
      r == LookupPv(m, p, bn, bd, K, GI, 4, s8, SeedFromRow0)
      lo == TailWhere(D8, LAMBDA w : (w - s8) * GI >= 8 * (M + 1))
      hi == TailWhere(D8, LAMBDA w : (w - s8) * GI >= -(8 * (M + 2)))
  IN /\ 0 <= r[1] /\ r[1] <= r[2] /\ r[2] <= Pow(bd, M)
     /\ lo <= r[1]
     /\ r[2] <= hi
=============================================================================
