------------------------------- MODULE MC_Pwm -------------------------------
(***************************************************************************)
(* Bounded exhaustive check of the D-layer facts used by C09 and C10:      *)
(*  - frequency rows sum to exactly one (as rationals)                     *)
(*  - Lg is exact on powers of two, monotone, and additive within 3 units  *)
(*  - reverse complement is an involution, mirrors window scores, and      *)
(*    commutes with counting (RC of the counts of a set of sequences = the *)
(*    counts of the reverse-complemented sequences)                        *)
(*  - every wildcard-free window scores between MinScoreOf and MaxScoreOf  *)
(***************************************************************************)
EXTENDS Pwm, TLC

CONSTANTS MaxM, CellVals, MaxX

VARIABLES m, x

K == 5
RowsV == [1..K -> CellVals]
Mats == UNION {[1..n -> RowsV] : n \in 1..MaxM}

ZeroMat == <<[k \in 1..K |-> 0]>>
\* two independent families of states: every matrix (x = 1), and every x (one fixed matrix)
Init == (m \in Mats /\ x = 1) \/ (m = ZeroMat /\ x \in 1..MaxX)
Step == FALSE /\ UNCHANGED <<m, x>>
Spec == Init /\ [][Step]_<<m, x>>

Involution == RC(RC(m)) = m
Words == [1..Len(m) -> 0..3]
MirrorScore == \A w \in Words : WindowScore(RC(m), RCSeq(w), 0, 4) = WindowScore(m, w, 0, 4)
Bounds == \A w \in Words : MinScoreOf(m, K) <= WindowScore(m, w, 0, 4) /\ WindowScore(m, w, 0, 4) <= MaxScoreOf(m, K)
\* m read as a count matrix with pseudocount 1/2 on the four nucleotides
RowSumsOne == \A i \in 1..Len(m) :
   PlainSum([k \in 1..K |-> FreqNum(m[i], <<1, 1, 1, 1, 0>>, 2, k)], K) = FreqDen(m[i], <<1, 1, 1, 1, 0>>, 2, K)
RCFreq == \A i \in 1..Len(m) : \A k \in 1..K :
   FreqNum(RC(m)[i], <<1, 1, 1, 1, 0>>, 2, k) = FreqNum(m[Len(m) + 1 - i], <<1, 1, 1, 1, 0>>, 2, Comp(k - 1) + 1)
LgPow2   == \A e \in 0..14 : Lg(Pow2(e)) = 1024 * e
LgMono   == Lg(x) <= Lg(x + 1)
LgAdd    == \A y \in 1..8 : x * y < 32768 => Abs(Lg(x * y) - Lg(x) - Lg(y)) <= 3
=============================================================================
