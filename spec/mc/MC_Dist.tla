------------------------------- MODULE MC_Dist -------------------------------
(***************************************************************************)
(* Bounded exhaustive checks for the distribution layer:                   *)
(*  ConvIsEnum   the convolution equals the enumeration of all words       *)
(*  TotalMass    the numerators sum to bd^M                                *)
(*  MemeOK       the MEME-style discretised table (I-layer of dist.rs)     *)
(*               assigns to every grid score s a p-value between the exact *)
(*               tails at s + d and s - d, d = (ceil(M/2) + 1) steps       *)
(*               and the table's p-values are non-increasing in the score  *)
(* for every matrix over CellVals (units 1/G) of width <= MaxM and the     *)
(* backgrounds Bgs.                                                        *)
(***************************************************************************)
EXTENDS Dist, TLC

CONSTANTS MaxM, CellVals, G

VARIABLES m, bn

K == 3
Bgs == {<<1, 1, 0>>, <<3, 1, 0>>}
Bd(b) == b[1] + b[2]
RowsV == {<<x, y, NINF>> : x \in CellVals, y \in CellVals}
Mats == UNION {[1..n -> RowsV] : n \in 1..MaxM}

\* the (matrix, background) pair is chosen by the first step so that the invariants are evaluated by the
\* worker threads (TLC computes initial states in a single thread)
Init == m = <<>> /\ bn = <<>>
Pick == m = <<>> /\ m' \in Mats /\ bn' \in Bgs
Spec == Init /\ [][Pick]_<<m, bn>>

M == Len(m)
Words == [1..M -> 0..1]
ConvIsEnum == m # <<>> => LET D == ConvDist(m, bn, K) IN
   \A s \in DOMAIN D : D[s] = SumOver([w \in Words |-> IF WordScore(m, w) = s THEN WordProb(w, bn) ELSE 0], Words)
TotalMass == m # <<>> => LET D == ConvDist(m, bn, K) IN SumRange(D, SetMin(DOMAIN D), SetMax(DOMAIN D)) = Pow(Bd(bn), M)

\* the table as dist.rs builds it, in exact arithmetic: pdf over integer table scores, then the survival
\* function (clipping at one is vacuous in exact arithmetic); pvalue(s) as coded: 1 below the minimum
\* index, 0 beyond the table.  Everything is bound once per state in a LET (TLC caches LET values).
MemeOK == m # <<>> =>
  LET D   == ConvDist(m, bn, K)
      tab == ConvDist(MemeData(m, K, G), bn, K)
      lo  == SetMin(DOMAIN tab)
      hi  == SetMax(DOMAIN tab)
      sc  == MemeScale(m, K, G)
      c0  == ((M + 1) \div 2) + 1                     \* ceil(M/2) + 1 discretisation steps
      one == Pow(Bd(bn), M)
      pv  == [x \in (SetMin(DOMAIN D) - 2)..(SetMax(DOMAIN D) + 3) |->
                LET i == MemeIndex(m, K, G, x) IN
                IF i < lo THEN one ELSE IF i > hi THEN 0 ELSE SumRange(tab, i, hi)]
  IN \A x \in (SetMin(DOMAIN D) - 2)..(SetMax(DOMAIN D) + 2) :
        \* exact tails P(S >= x +- c0/scale), scores in units 1/G:  (w - x) * scale >= +-G * c0
        /\ TailWhere(D, LAMBDA w : (w - x) * sc >= G * c0) <= pv[x]
        /\ pv[x] <= TailWhere(D, LAMBDA w : (w - x) * sc >= -(G * c0))
        /\ pv[x + 1] <= pv[x]
=============================================================================
