SPECIFICATION Spec
CONSTANTS
  C = 2
  K = 3
  MaxRows = 2
  MaxDepth = 3
  Cursors = FALSE
  Emit = FALSE
  OpsMode = "all"
VIEW View
INVARIANTS TypeOK LenOK ResizeKeeps ReadsPure EmptyView IndexLinear OffsetBij ReduceCovers IterRefines IterExact EmitReplay
CHECK_DEADLOCK FALSE
