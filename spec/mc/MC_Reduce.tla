------------------------------ MODULE MC_Reduce ------------------------------
(***************************************************************************)
(* Bounded exhaustive check of the reduction algorithms (I-layer) against  *)
(* the definitions (D-layer) over every table with C columns, up to        *)
(* MaxRows rows and cells in Vals:                                         *)
(*   GenericOK  generic scan designates a cell holding the maximum         *)
(*   Avx2F32OK  column-maxima arg-max designates a cell holding the max    *)
(*   MaxInitOK  the max kernel returns MaxDef when its accumulators start  *)
(*              at Init (-inf, i.e. NINF); with Init = 0 the invariant is  *)
(*              violated on an all-negative table (finding #1 of           *)
(*              DESIGN.md section 7 at design level)                       *)
(*   LanesOK    the u8 arg-max designates a maximal cell when `assumed`    *)
(*              is the real lane permutation                               *)
(***************************************************************************)
EXTENDS Reduce, TLC

CONSTANTS C, MaxRows, Vals, MaxInit, Perm, Assumed

VARIABLES t

Init == t = <<>>
AddRow == \E r \in [1..C -> Vals] : Len(t) < MaxRows /\ t' = Append(t, r)
Next == AddRow
Spec == Init /\ [][Next]_t

ValsN == {-2, -1, 0, NINF}      \* cfg files cannot hold negative literals
ValsU == {0, 1, 2, 255}
NinfC == NINF
Ident2 == <<0, 1>>
ZeroC  == 0
Ident4 == <<0, 1, 2, 3>>
Swap4  == <<0, 2, 1, 3>>

GenericOK == t # <<>> => LET a == GenericArgmax(t, C) IN ArgmaxOK(t, C, a[1], a[2])
Avx2F32OK == t # <<>> => LET a == Avx2ArgmaxF32(t, C) IN ArgmaxOK(t, C, a[1], a[2])
MaxInitOK == t # <<>> => Avx2MaxF32(t, C, MaxInit) = MaxDef(t, C)
LanesOK   == t # <<>> => LET a == Avx2ArgmaxU8(t, C, Perm, Assumed) IN ArgmaxOK(t, C, a[1], a[2])
ThresholdOK == t # <<>> => \A x \in Vals :
                 /\ \A h \in ThresholdSet(t, C, x) : t[h[1] + 1][h[2] + 1] >= x
                 /\ (x = MaxDef(t, C) => ThresholdSet(t, C, x) # {})
=============================================================================
