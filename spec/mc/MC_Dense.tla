------------------------------ MODULE MC_Dense ------------------------------
(***************************************************************************)
(* Bounded exhaustive model for C19.                                       *)
(*  - explores every history of A-layer operations up to MaxDepth on two   *)
(*    matrices with C columns, cells in 0..K-1, at most MaxRows rows;      *)
(*  - runs the I-layer storage model (stride-wide rows with garbage in the *)
(*    padding, Vec-like truncate/extend, fill through the ravelled slice)  *)
(*    in lock-step and checks that its logical projection is the A state   *)
(*    (Refines), that the properties of C19 hold as action properties      *)
(*    (RowCount, KeepOld, NewDefault, CloneEq), and                        *)
(*  - prints one `REPLAY` line per complete history, which the harness     *)
(*    replays on the real DenseMatrix<T, C> (spec -> impl).                *)
(***************************************************************************)
EXTENDS Dense, TLC, Json, FiniteSets

CONSTANTS C, K, MaxRows, MaxDepth, Stride, Emit

VARIABLES st,      \* A-layer state
          ist,     \* I-layer state: [a |-> rows of Stride cells, b |-> ...]
          hist,    \* history of <<op, obs>> (hidden from the VIEW)
          last     \* [op, pre, post, obs] of the last step (for action properties)

G == 99   \* garbage marker in padding / uninitialised cells

Vals  == 0..(K - 1)
Names == {"a", "b"}
RowsS == UNION {[1..n -> [1..C -> Vals]] : n \in 0..MaxRows}

Ops(s) ==
     {[op |-> "new", tgt |-> t, r |-> r] : t \in Names, r \in 0..MaxRows}
  \cup {[op |-> "resize", tgt |-> t, r |-> r] : t \in Names, r \in 0..MaxRows}
  \cup {[op |-> "with_capacity", tgt |-> "a", r |-> r, cap |-> c] : r \in 0..MaxRows, c \in {0, MaxRows + 1}}
  \cup {[op |-> "set", tgt |-> t, i |-> i, j |-> j, v |-> v] :
            t \in Names, i \in 1..MaxRows, j \in 1..C, v \in Vals \ {0}}
  \cup {[op |-> "fill", tgt |-> t, v |-> v] : t \in Names, v \in Vals \ {0}}
  \cup {[op |-> "clone_to_other", tgt |-> t] : t \in Names}
  \cup {[op |-> "clone_from", tgt |-> t] : t \in Names}
  \cup {[op |-> "from_rows_other", tgt |-> t] : t \in Names}
  \cup {[op |-> oo, tgt |-> "a", i |-> ij[1], j |-> ij[2], v |-> 1] :
            oo \in {"get_oob", "set_oob"}, ij \in {<<1, C + 1>>, <<MaxRows + 1, 1>>, <<2, C + 1>>}}
  \cup {[op |-> "iter_ends", tgt |-> "a", pat |-> p, mutable |-> mu] :
            p \in {<< <<"b", 0>>, <<"f", 0>>, <<"b", 0>>, <<"f", 0>> >>, << <<"f", 0>>, <<"b", 0>>, <<"b", 0>> >>,
                   << <<"b", 1>>, <<"f", 0>>, <<"b", 0>> >>, << <<"f", 1>>, <<"b", 1>> >>, << <<"b", 2>>, <<"b", 0>> >>}, mu \in BOOLEAN}
  \cup {[op |-> "iter_mut_bump", tgt |-> "a"], [op |-> "iter", tgt |-> "a"],
        [op |-> "iter_rev", tgt |-> "a"], [op |-> "eq", tgt |-> "a"],
        [op |-> "reserve", tgt |-> "a", n |-> 2]}

\* ------------------------------------------------------------ I-layer model
PadRow(r)      == [j \in 1..Stride |-> IF j <= C THEN r[j] ELSE G]
IDefault       == [j \in 1..Stride |-> IF j <= C THEN 0 ELSE G]
Proj(im)       == [i \in 1..Len(im) |-> [j \in 1..C |-> im[i][j]]]
IResize(im, n) == [i \in 1..n |-> IF i <= Len(im) THEN im[i] ELSE IDefault]   \* Vec::resize_with
IFill(im, v)   == [i \in 1..Len(im) |-> [j \in 1..Stride |-> v]]              \* ravel_mut().fill(v)
IStep(is, o) ==
  LET m == is[o.tgt] IN
  CASE o.op \in {"new", "with_capacity"} -> [is EXCEPT ![o.tgt] = IResize(<<>>, o.r)]
    [] o.op = "resize"         -> [is EXCEPT ![o.tgt] = IResize(m, o.r)]
    [] o.op = "set"            -> [is EXCEPT ![o.tgt][o.i][o.j] = o.v]
    [] o.op = "fill"           -> [is EXCEPT ![o.tgt] = IFill(m, o.v)]
    [] o.op \in {"clone_to_other", "clone_from"}
                               -> [is EXCEPT ![Other(o.tgt)] = [i \in 1..Len(m) |-> PadRow(m[i])]]
    [] o.op = "from_rows_other" -> [is EXCEPT ![o.tgt] = [i \in 1..Len(is[Other(o.tgt)]) |-> PadRow(is[Other(o.tgt)][i])]]
    [] o.op = "iter_mut_bump"  -> [is EXCEPT ![o.tgt] =
                                    [i \in 1..Len(m) |-> [j \in 1..Stride |->
                                        IF j <= C THEN (m[i][j] + 1) % K ELSE m[i][j]]]]
    [] OTHER                   -> is
IEq(is) == Proj(is.a) = Proj(is.b)     \* derived PartialEq compares the arrays only

\* ------------------------------------------------------------------- model
Init == /\ st = DenseInit
        /\ ist = [a |-> <<>>, b |-> <<>>]
        /\ hist = <<>>
        /\ last = [op |-> [op |-> "init", tgt |-> "a"], pre |-> DenseInit, obs |-> 0]

Do(o) == /\ Len(hist) < MaxDepth
         /\ InContract(st, o, C)
         /\ LET r == DenseStep(st, o, C, K) IN
              /\ st' = r.st
              /\ ist' = IStep(ist, o)
              /\ hist' = Append(hist, [op |-> o, obs |-> r.obs, post |-> r.st])
              /\ last' = [op |-> o, pre |-> st, obs |-> r.obs]

New     == \E o \in Ops(st) : o.op \in {"new", "with_capacity"} /\ Do(o)
Resize  == \E o \in Ops(st) : o.op = "resize" /\ Do(o)
SetC    == \E o \in Ops(st) : o.op = "set" /\ Do(o)
Fill    == \E o \in Ops(st) : o.op = "fill" /\ Do(o)
CloneOp == \E o \in Ops(st) : o.op \in {"clone_to_other", "clone_from", "from_rows_other"} /\ Do(o)
Observe == \E o \in Ops(st) : o.op \in {"iter", "iter_rev", "eq", "iter_mut_bump", "reserve", "iter_ends", "get_oob", "set_oob"} /\ Do(o)

Next == New \/ Resize \/ SetC \/ Fill \/ CloneOp \/ Observe

vars == <<st, ist, hist, last>>
Spec == Init /\ [][Next]_vars
View == <<st, ist, last, Len(hist)>>

\* ---------------------------------------------------------------- properties
TypeOK   == st.a \in RowsS /\ st.b \in RowsS
Refines  == Proj(ist.a) = st.a /\ Proj(ist.b) = st.b
EqRefines == (last.op.op = "eq") => (last.obs = IEq(ist))

\* C19 as facts about the last step
RowCount == last.op.op \in {"new", "with_capacity", "resize"} => Len(st[last.op.tgt]) = last.op.r
KeepOld  == last.op.op = "resize" =>
              \A i \in 1..Len(st[last.op.tgt]) :
                 i <= Len(last.pre[last.op.tgt]) => st[last.op.tgt][i] = last.pre[last.op.tgt][i]
NewDefault == last.op.op \in {"resize", "new", "with_capacity"} =>
              \A i \in 1..Len(st[last.op.tgt]) :
                 (last.op.op # "resize" \/ i > Len(last.pre[last.op.tgt]))
                    => st[last.op.tgt][i] = ConstRow(C, 0)
CloneEq  == last.op.op \in {"clone_to_other", "clone_from"} => st.a = st.b
CloneEq2 == last.op.op = "from_rows_other" => st.a = st.b /\ st[Other(last.op.tgt)] = last.pre[Other(last.op.tgt)]
Untouched == last.op.op \notin {"clone_to_other", "clone_from", "init"}
               => st[Other(last.op.tgt)] = last.pre[Other(last.op.tgt)]
IterOrder == /\ last.op.op = "iter" => last.obs = st.a
             /\ last.op.op = "iter_rev" => \A i \in 1..Len(st.a) : last.obs[i] = st.a[Len(st.a) + 1 - i]

\* iteration from both ends visits exactly the rows, each once: the rows taken from the front, followed by the rows
\* taken from the back in reverse, are the first / last rows of the table; when the requests outnumber the rows, the
\* whole table
RECURSIVE PlainSumD(_, _)
PlainSumD(f, k) == IF k = 0 THEN 0 ELSE PlainSumD(f, k - 1) + f[k]

EndsExact ==
  last.op.op = "iter_ends" =>
    LET w  == last.obs.y
        pt == last.op.pat
        n  == Len(st.a)
        plain == \A q \in 1..Len(pt) : pt[q][2] = 0
        fr == SelectSeq([q \in 1..Len(w) |-> <<pt[q][1], w[q]>>], LAMBDA x : x[1] = "f" /\ x[2] # <<>>)
        bk == SelectSeq([q \in 1..Len(w) |-> <<pt[q][1], w[q]>>], LAMBDA x : x[1] = "b" /\ x[2] # <<>>)
        skipped == PlainSumD([q \in 1..Len(pt) |-> IF w[q] # <<>> THEN pt[q][2] ELSE 0], Len(pt))
    IN \* every yield is a row of the table, yields + skipped rows + remaining never exceed the rows, and with plain
       \* requests the front yields are the first rows and the back yields the last rows in reverse
       /\ \A q \in 1..Len(w) : w[q] = <<>> \/ \E i \in 1..n : w[q] = st.a[i]
       /\ Len(fr) + Len(bk) + skipped + last.obs.n <= n
       /\ plain => Len(fr) + Len(bk) + last.obs.n = n
       /\ plain => \A i1 \in 1..Len(fr) : fr[i1][2] = st.a[i1]
       /\ plain => \A i2 \in 1..Len(bk) : bk[i2][2] = st.a[n + 1 - i2]
       /\ (plain /\ Len(pt) >= n) => last.obs.n = 0

\* one REPLAY line per complete history
EmitReplay == (Emit /\ Len(hist) = MaxDepth) => PrintT("REPLAY " \o ToJson(hist))
=============================================================================
