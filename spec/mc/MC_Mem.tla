------------------------------- MODULE MC_Mem -------------------------------
(***************************************************************************)
(* Bounded exhaustive check of the kernels' access arithmetic (I-layer of  *)
(* Mem.tla) against InBounds, one state per parameter value:               *)
(*   EncodeIn   the vector loop of the encoders never reads past l bytes   *)
(*              (W = 16 with `<`, W = 32 with `<=`)                        *)
(*   StripeIn   the 32-byte loads of the 32 x 32 tiles end inside the L    *)
(*              symbols.  With Guarded = FALSE (loop bound = row count, as *)
(*              originally coded) this is violated for every L >= 993 that *)
(*              is not a multiple of 32: negative control.                 *)
(*   ScoreIn    with wrap >= M - 1 look-ahead rows every sequence row read *)
(*              exists, for every row range                                *)
(***************************************************************************)
EXTENDS Mem, TLC

CONSTANTS MaxL, Guarded

VARIABLES L
Init == L \in 0..MaxL
Spec == Init /\ [][FALSE /\ UNCHANGED L]_L

EncodeIn == EncodeMaxEnd(L, 32, "le") <= L /\ EncodeMaxEnd(L, 16, "lt") <= L
StripeIn == StripeMaxEnd(L, IF Guarded THEN BoundGuarded(L) ELSE BoundAsCoded(L)) <= L
\* the guarded bound still transposes every full tile of a sequence whose length is a multiple of 32
StripeFast == (Guarded /\ L % 32 = 0) => BoundGuarded(L) = BoundAsCoded(L)
ScoreIn == LET R == NRows(L, 32) IN
           \A M \in 1..6 : \A b \in 0..R : b >= 1 => ScoreMaxSeqRow(b, M) < R + (M - 1)
=============================================================================
