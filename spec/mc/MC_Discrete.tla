----------------------------- MODULE MC_Discrete -----------------------------
(***************************************************************************)
(* Bounded exhaustive check of the theorem behind C08: for every matrix    *)
(* over two symbols (+ a -inf wildcard) with cells in 0..MaxCell, width    *)
(* <= MaxM and non-zero range, every discretisation whose cells are the    *)
(* exact round-up or one more (f32 noise), and every word, the saturating  *)
(* 8-bit sum is >= the floor image of the real score (NoUnderestimate),    *)
(* hence a word meeting a threshold reaches the byte threshold             *)
(* (NoLostHit).  With Kernel = "wrap" (plain addition modulo 256, what the *)
(* generic kernel does in release builds) the invariant is violated as     *)
(* soon as the rounded-up consensus exceeds 255: negative control.         *)
(***************************************************************************)
EXTENDS Discrete, TLC

CONSTANTS MaxM, MaxCell, Kernel

VARIABLES pssm, slack, word

K == 3
W == 2
RowsV == {<<x, y, NINF>> : x \in 0..MaxCell, y \in 0..MaxCell}
Mats  == UNION {[1..m -> RowsV] : m \in 1..MaxM}

Init == /\ pssm \in {p \in Mats : Range(p, K) > 0}
        /\ slack = <<>> /\ word = <<>>
Choose == /\ word = <<>>
          /\ slack' \in [1..Len(pssm) -> [1..2 -> {0, 1}]]
          /\ word' \in [1..Len(pssm) -> 0..1]
          /\ UNCHANGED pssm
Next == Choose
Spec == Init /\ [][Next]_<<pssm, slack, word>>

M == Len(pssm)
Rg == Range(pssm, K)
Off == Offsets(pssm, K)
\* a discretisation allowed by DiscOK: exact round-up plus per-cell slack, clamped
D == [i \in 1..M |-> [k \in 1..K |-> IF k = K THEN 0 ELSE Clamp8(DiscExact(pssm[i][k], Off[i], Rg) + slack[i][k])]]
Real == WindowScore(pssm, word, 0, W)
Sum8 == IF Kernel = "sat" THEN SatScore(D, word, 0, W) ELSE PlainScore(D, word, 0, W) % 256

NoUnderestimate == word # <<>> => Sum8 >= ScaleExact(Real, OffsetSum(pssm, K), Rg)
\* thresholds on the grid between the minimum and the maximum score
NoLostHit == word # <<>> => \A t \in OffsetSum(pssm, K)..MaxSum(pssm, K) :
               Real >= t => Sum8 >= ScaleExact(t, OffsetSum(pssm, K), Rg)
=============================================================================
