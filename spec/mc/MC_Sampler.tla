----------------------------- MODULE MC_Sampler -----------------------------
(***************************************************************************)
(* I-layer model of the sampler's incremental bookkeeping                  *)
(* (include_sequence / exclude_sequence on `motif` and `background_counts`)*)
(* checked against the recomputation of Sampler.tla in every reachable     *)
(* state: 3 sequences over two symbols + wildcard, width w, both modes,    *)
(* every held-out choice, every new start, every zoops inclusion decision. *)
(* Asymmetric = TRUE drops the background update of exclude_sequence       *)
(* (negative control).                                                     *)
(***************************************************************************)
EXTENDS Sampler, TLC

CONSTANTS Data, W, Mode, MaxSteps, Asymmetric

VARIABLES starts,   \* function 0..n-1 -> start (all sequences, as in the code)
          act,      \* set of active indices
          motif, bg, steps, lastiter

K == 3
N == Len(Data)
Win(i, s) == [j \in 1..W |-> Data[i + 1][s + j]]
SeqCounts(i) == [k \in 1..K |-> Cardinality({p \in 1..Len(Data[i + 1]) : Data[i + 1][p] = k - 1})]

AddWin(m, i, s, d) == [j \in 1..W |-> [k \in 1..K |-> m[j][k] + (IF Data[i + 1][s + j] = k - 1 THEN d ELSE 0)]]
WinCounts(i, s) == [k \in 1..K |-> Cardinality({j \in 1..W : Data[i + 1][s + j] = k - 1})]

Include(st, i) ==
  IF i \in st.act THEN st
  ELSE [act |-> st.act \cup {i}, motif |-> AddWin(st.motif, i, st.starts[i], 1),
        bg |-> [k \in 1..K |-> st.bg[k] + SeqCounts(i)[k] - WinCounts(i, st.starts[i])[k]], starts |-> st.starts]
Exclude(st, i) ==
  IF i \notin st.act THEN st
  ELSE [act |-> st.act \ {i}, motif |-> AddWin(st.motif, i, st.starts[i], -1),
        bg |-> IF Asymmetric THEN st.bg
               ELSE [k \in 1..K |-> st.bg[k] + WinCounts(i, st.starts[i])[k] - SeqCounts(i)[k]], starts |-> st.starts]

\* sorted sequence of a set of naturals, and the parallel starts
RECURSIVE SortSet(_)
SortSet(S) == IF S = {} THEN <<>> ELSE LET m == SetMin(S) IN <<m>> \o SortSet(S \ {m})
ActSeq(a) == SortSet(a)
StartsSeq(a, s) == [q \in 1..Len(ActSeq(a)) |-> s[ActSeq(a)[q]]]

Zero == [j \in 1..W |-> [k \in 1..K |-> 0]]
Init == /\ starts \in [0..(N - 1) -> 0..2] /\ \A i \in 0..(N - 1) : starts[i] + W <= Len(Data[i + 1])
        /\ act \in (IF Mode = "oops" THEN {0..(N - 1)} ELSE SUBSET (0..(N - 1)))
        /\ motif = MotifOf(Data, W, K, ActSeq(act), StartsSeq(act, starts), -1)
        /\ bg = BgCountsOf(Data, W, K, ActSeq(act), StartsSeq(act, starts))
        /\ steps = 0 /\ lastiter = Zero

Step ==
  /\ steps < MaxSteps
  /\ \E z \in 0..(N - 1) : \E ns \in 0..(Len(Data[z + 1]) - W) : \E keep \in BOOLEAN :
       LET st0 == [act |-> act, motif |-> motif, bg |-> bg, starts |-> starts]
           was == z \in act
           st1 == Exclude(st0, z)
           st2 == Include([st1 EXCEPT !.starts = [starts EXCEPT ![z] = ns]], z)
           st3 == IF Mode = "zoops" /\ ~was /\ ~keep THEN Exclude(st2, z) ELSE st2
       IN /\ lastiter' = st1.motif
          /\ starts' = st3.starts /\ act' = st3.act /\ motif' = st3.motif /\ bg' = st3.bg
          /\ steps' = steps + 1
Next == Step
vars == <<starts, act, motif, bg, steps, lastiter>>
Spec == Init /\ [][Next]_vars

MotifIsRecomputation == motif = MotifOf(Data, W, K, ActSeq(act), StartsSeq(act, starts), -1)
\* the cheap form used by the trace specification is the definition
BgSame == BgCountsFrom(DataCounts(Data, K), Data, W, K, ActSeq(act), StartsSeq(act, starts)) = BgCountsOf(Data, W, K, ActSeq(act), StartsSeq(act, starts))
BgIsRecomputation    == bg = BgCountsOf(Data, W, K, ActSeq(act), StartsSeq(act, starts))
InRange == StartsInRange(Data, W, ActSeq(act), StartsSeq(act, starts))
OopsAllActive == Mode = "oops" => act = 0..(N - 1)

D1 == <<<<0, 1, 0, 2>>, <<1, 1, 0>>, <<0, 2, 1, 1>>>>
=============================================================================
