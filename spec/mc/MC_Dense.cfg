SPECIFICATION Spec
CONSTANTS
  C = 2
  K = 3
  MaxRows = 2
  MaxDepth = 3
  Stride = 3
  Emit = FALSE
VIEW View
INVARIANTS TypeOK Refines EqRefines RowCount KeepOld NewDefault CloneEq CloneEq2 Untouched IterOrder EmitReplay
CHECK_DEADLOCK FALSE
