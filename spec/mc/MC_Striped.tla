----------------------------- MODULE MC_Striped -----------------------------
(***************************************************************************)
(* Bounded exhaustive model for C04.                                       *)
(*                                                                         *)
(* A-layer: Striped!StripedStep.  I-layer: one buffer [len, wrap, data]    *)
(* manipulated the way the code does it:                                   *)
(*   Variant = "generic" : Stripe::stripe_into of pli/mod.rs (take buffer, *)
(*             resize keeps old rows, two fill loops)                      *)
(*   Variant = "tiles"   : stripe_avx2 - T x T transposed tiles for the    *)
(*             row blocks that fit (reads past the end of the symbol slice *)
(*             yield the garbage value G), scalar tail rows guarded by the *)
(*             length, wildcard fill of the remainder                      *)
(*   configure_wrap as coded in seq.rs (only grows, rewrites rows 0..m-1   *)
(*             of the look-ahead block from matrix rows i, column j+1).    *)
(* Checked in every reachable state: the I-layer observation satisfies     *)
(* Striped!ObsOK for the A-state (refinement), and DeepWrapOK.             *)
(* Every complete history is printed as a REPLAY line (Emit).              *)
(***************************************************************************)
EXTENDS Striped, TLC, Json

CONSTANTS C, K, MaxLen, MaxWrap, MaxDepth, Variant, T, Emit

VARIABLES a,     \* A-layer state
          buf,   \* I-layer buffer [len, wrap, data]
          hist

W == K - 1
G == 77       \* garbage: uninitialised / out-of-bounds read
Syms == 0..(K - 1)
Seqs == UNION {[1..n -> Syms] : n \in 0..MaxLen}

\* ------------------------------------------------------------------ I-layer
Resize(d, n) == [i \in 1..n |-> IF i <= Len(d) THEN d[i] ELSE [c \in 1..C |-> W]]   \* default symbol = wildcard

\* generic: every cell (r, c) of the first `rows` rows is written by one of the two loops
GenericStripe(b, s) ==
  LET L == Len(s)  R == NRows(L, C)
      d0 == Resize(b.data, R)
      d1 == [r \in 1..R |-> [c \in 1..C |->
               LET i == (c - 1) * R + (r - 1) IN IF i < L THEN s[i + 1] ELSE W]]
  IN [len |-> L, wrap |-> 0, data |-> d1]

\* tiles: rows below T*(R div T) come from T-wide loads at src + c*R + i (garbage past the end),
\* remaining rows from the guarded scalar loop (cells not written keep the old buffer content),
\* then cells with linear index >= L are filled with the wildcard.
TileStripe(b, s) ==
  LET L == Len(s)  R == NRows(L, C)
      d0 == Resize(b.data, R)
      tiled == (R \div T) * T
      d1 == [r \in 1..R |-> [c \in 1..C |->
               LET i == (c - 1) * R + (r - 1) IN
               IF r <= tiled THEN (IF i < L THEN s[i + 1] ELSE G)
               ELSE IF i < L THEN s[i + 1] ELSE d0[r][c]]]
      d2 == [r \in 1..R |-> [c \in 1..C |->
               LET i == (c - 1) * R + (r - 1) IN IF i >= L THEN W ELSE d1[r][c]]]
  IN IF L = 0 THEN [len |-> 0, wrap |-> 0, data |-> <<>>]     \* early exit leaves the default (empty) buffer
     ELSE [len |-> L, wrap |-> 0, data |-> d2]

RECURSIVE WrapFill(_, _, _, _)
\* for i in 0..m: row[rows+i][j] = row[i][j+1]; row[rows+i][C-1] = W  (sequential, later rows may read earlier ones)
WrapFill(d, rows, m, i) ==
  IF i = m THEN d
  ELSE WrapFill([d EXCEPT ![rows + i + 1] = [c \in 1..C |-> IF c < C THEN d[i + 1][c + 1] ELSE W]], rows, m, i + 1)

ConfigureWrap(b, m) ==
  IF m > b.wrap
  THEN LET rows == Len(b.data) - b.wrap
           d0 == Resize(b.data, Len(b.data) + m - b.wrap)
       IN [b EXCEPT !.wrap = m, !.data = WrapFill(d0, rows, m, 0)]
  ELSE b

IStep(b, o) ==
  CASE o.op = "stripe"      -> IF Variant = "tiles" THEN TileStripe([len |-> 0, wrap |-> 0, data |-> <<>>], o.seq)
                                                    ELSE GenericStripe([len |-> 0, wrap |-> 0, data |-> <<>>], o.seq)
    [] o.op = "stripe_into" -> IF Variant = "tiles" THEN TileStripe(b, o.seq) ELSE GenericStripe(b, o.seq)
    [] o.op = "configure_wrap" -> ConfigureWrap(b, o.m)

\* observation of the I-layer buffer, in the shape of the recorded `post`
Obs(b, s) ==
  LET R == Len(b.data) - b.wrap IN
  [len |-> b.len, wrap |-> b.wrap, rows |-> b.data,
   index |-> [q \in 1..b.len |-> <<q - 1, b.data[((q - 1) % R) + 1][((q - 1) \div R) + 1]>>],
   counts |-> [k \in 1..K |-> Cardinality({<<r, c>> \in (1..R) \X (1..C) :
                                   (c - 1) * R + (r - 1) < b.len /\ b.data[r][c] = k - 1})]]

\* ------------------------------------------------------------------ model
Init == /\ a = StripedInit
        /\ buf = [len |-> 0, wrap |-> 0, data |-> <<>>]
        /\ hist = <<>>

Do(o) == /\ a' = StripedStep(a, o)
         /\ buf' = IStep(buf, o)
         /\ hist' = Append(hist, [op |-> o, post |-> Obs(IStep(buf, o), StripedStep(a, o))])

StripeFresh == \E s \in Seqs : Len(hist) < MaxDepth /\ Do([op |-> "stripe", seq |-> s])
StripeInto  == \E s \in Seqs : Len(hist) < MaxDepth /\ Do([op |-> "stripe_into", seq |-> s])
Configure   == \E m \in 0..MaxWrap : Len(hist) < MaxDepth /\ Do([op |-> "configure_wrap", m |-> m])
Next == StripeFresh \/ StripeInto \/ Configure

vars == <<a, buf, hist>>
Spec == Init /\ [][Next]_vars
View == <<a, buf, Len(hist)>>

\* ------------------------------------------------------------------ properties
Refines   == ObsOK(a, Obs(buf, a), C, K)
DeepWrap  == DeepWrapOK(a, Obs(buf, a), C, W)
ExactWrap == buf.wrap = a.req     \* the code adds exactly the largest width requested
NoGarbage == \A r \in 1..Len(buf.data) : \A c \in 1..C : buf.data[r][c] # G
FullData  == buf.data = StripedData(a.seq, C, buf.wrap, W)   \* closed form of the whole matrix
EmitReplay == (Emit /\ Len(hist) = MaxDepth) => PrintT("REPLAY " \o ToJson(hist))
=============================================================================
