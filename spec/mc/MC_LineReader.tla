---------------------------- MODULE MC_LineReader ----------------------------
(***************************************************************************)
(* I-layer models of the two line-based stream readers of lightmotif-io    *)
(* and their refinement against the A-layer of Reader.tla (a queue of      *)
(* records returned whole and in order, then end of input).                *)
(*                                                                         *)
(* TRANSFAC (transfac/reader.rs).  Lines: "V" version line, "X" separator, *)
(* "T" terminator `//`, "D" any other record line.  `buffer` accumulates   *)
(* lines, `last` is the offset (in lines) of the line examined for the     *)
(* terminator.  Reader::new reads up to the first terminator and discards  *)
(* the block if it starts with a version line; next() reads up to the next *)
(* terminator and parses the buffer.                                       *)
(*                                                                         *)
(* UniPROBE (uniprobe/mod.rs).  Lines: "I" identifier, "C" matrix column,  *)
(* "B" blank.  `pending` is the `line` flag: the buffer holds a non-blank  *)
(* line that has not been consumed yet (the identifier of the next record  *)
(* read while collecting columns).                                         *)
(*                                                                         *)
(* read_line is specified by its std contract (one line per call, 0 at     *)
(* EOF), hence independent of the chunking of the stream.                  *)
(***************************************************************************)
EXTENDS Naturals, Sequences, TLC

CONSTANTS MaxRec, MaxBody, Format

VARIABLES file, recs, pos, buffer, last, pending, out, status

\* ---------------------------------------------------------------- files
RECURSIVE Rep(_, _)
Rep(x, n) == IF n = 0 THEN <<>> ELSE <<x>> \o Rep(x, n - 1)
RECURSIVE RenderT(_)
RenderT(bs) == IF bs = <<>> THEN <<>> ELSE Rep("D", Head(bs)) \o <<"T">> \o RenderT(Tail(bs))
RECURSIVE RenderU(_, _)
RenderU(bs, blanks) == IF bs = <<>> THEN <<>> ELSE <<"I">> \o Rep("C", Head(bs)) \o Rep("B", blanks) \o RenderU(Tail(bs), blanks)
Bodies == UNION {[1..n -> 1..MaxBody] : n \in 0..MaxRec}

Init == /\ recs \in Bodies
        /\ IF Format = "transfac"
           THEN \E vv \in BOOLEAN : file = (IF vv THEN <<"V", "X", "T">> ELSE <<>>) \o RenderT(recs)
           ELSE \E blanks \in 0..2 : file = RenderU(recs, blanks)
        /\ pos = 0 /\ buffer = <<>> /\ last = 0 /\ pending = FALSE /\ out = 0 /\ status = "new"

ReadLine == IF pos < Len(file) THEN <<file[pos + 1]>> ELSE <<>>      \* <<>> = Ok(0)

\* ---------------------------------------------------------------- TRANSFAC
RECURSIVE TNewLoop(_, _, _)
\* returns <<pos, buffer, last>> after Reader::new's loop
TNewLoop(p, b, l) ==
  IF p >= Len(file) THEN <<p, b, l>>
  ELSE LET b2 == Append(b, file[p + 1]) IN
       IF b2[l + 1] = "T" THEN <<p + 1, b2, l>> ELSE TNewLoop(p + 1, b2, l + 1)

TNew == /\ status = "new" /\ Format = "transfac"
        /\ LET r == TNewLoop(0, <<>>, 0) IN
             /\ pos' = r[1]
             /\ IF r[2] # <<>> /\ r[2][1] = "V"
                THEN buffer' = <<>> /\ last' = 0            \* version block parsed and discarded
                ELSE buffer' = r[2] /\ last' = r[3]
        /\ status' = "ready" /\ UNCHANGED <<file, recs, pending, out>>

RECURSIVE TNextLoop(_, _, _, _)
TNextLoop(p, b, l, end) ==
  IF end \/ p >= Len(file) THEN <<p, b, l>>
  ELSE LET b2 == Append(b, file[p + 1]) IN TNextLoop(p + 1, b2, l + 1, b2[l + 1] = "T")

\* parse_record: zero or more D / X lines, then the terminator as last line
ParsesAsRecord(b) == b # <<>> /\ b[Len(b)] = "T" /\ \A i \in 1..(Len(b) - 1) : b[i] \in {"D", "X"}
BodyOf(b) == Len(SelectSeq(b, LAMBDA x : x = "D"))

TNext == /\ status = "ready" /\ Format = "transfac"
         /\ LET end0 == last < Len(buffer) /\ buffer[last + 1] = "T"
                r == TNextLoop(pos, buffer, last, end0)
            IN /\ pos' = r[1]
               /\ IF r[2] = <<>> THEN status' = "done" /\ UNCHANGED <<buffer, last, out>>
                  ELSE IF ~ParsesAsRecord(r[2]) THEN status' = "error" /\ UNCHANGED <<buffer, last, out>>
                  ELSE /\ buffer' = <<>> /\ last' = 0 /\ out' = out + 1
                       /\ status' = IF out < Len(recs) /\ BodyOf(r[2]) = recs[out + 1] THEN "ready" ELSE "wrong_record"
         /\ UNCHANGED <<file, recs, pending>>

\* ---------------------------------------------------------------- UniPROBE
RECURSIVE SkipBlank(_)
\* read lines until a non-blank one: returns <<pos, line or "">>
SkipBlank(p) == IF p >= Len(file) THEN <<p, "">> ELSE IF file[p + 1] = "B" THEN SkipBlank(p + 1) ELSE <<p + 1, file[p + 1]>>

RECURSIVE Columns(_, _, _)
\* collect matrix columns: returns <<pos, count, pending line or "">>
Columns(p, n, held) ==
  LET r == IF held # "" THEN <<p, held>> ELSE SkipBlank(p) IN
  IF r[2] = "C" THEN Columns(r[1], n + 1, "") ELSE <<r[1], n, r[2]>>

UNext == /\ status \in {"new", "ready"} /\ Format = "uniprobe"
         /\ LET idl == IF pending THEN <<pos, buffer[1]>> ELSE SkipBlank(pos) IN
            IF idl[2] = "" THEN status' = "done" /\ UNCHANGED <<pos, buffer, pending, out>>
            ELSE LET c == Columns(idl[1], 0, "") IN
                 /\ pos' = c[1]
                 /\ pending' = (c[3] # "")
                 /\ buffer' = IF c[3] # "" THEN <<c[3]>> ELSE <<>>
                 /\ out' = out + 1
                 /\ status' = IF idl[2] = "I" /\ out < Len(recs) /\ c[2] = recs[out + 1] THEN "ready" ELSE "wrong_record"
         /\ UNCHANGED <<file, recs, last>>

Next == TNew \/ TNext \/ UNext
vars == <<file, recs, pos, buffer, last, pending, out, status>>
Spec == Init /\ [][Next]_vars

ExactRecord == status \notin {"wrong_record", "error"}
Complete    == status = "done" => out = Len(recs)
=============================================================================
