------------------------------ MODULE MC_Score ------------------------------
(***************************************************************************)
(* Bounded exhaustive check that the column-wise kernel over the striped   *)
(* matrix with look-ahead rows (I-layer) computes the window score         *)
(* (D-layer) at every valid position, for every sequence over two symbols  *)
(* + wildcard up to MaxLen, every matrix over Vals x WVals of width        *)
(* 1..MaxM, every row sub-range, C columns - including M - 1 > R where the *)
(* look-ahead rows are deeper than the sequence rows - and that cells past *)
(* the last position are -inf when the wildcard column is (PadInv).        *)
(***************************************************************************)
EXTENDS Score, TLC

CONSTANTS C, MaxLen, MaxM, Vals, WVals

VARIABLES seq, pssm, rng, phase

K == 3
ValsN   == {NINF}            \* cfg files cannot hold negative literals
Vals01N == {0, 1, NINF}
W == 2
Seqs  == UNION {[1..n -> 0..(K - 1)] : n \in 0..MaxLen}
RowsV == {<<x, y, w>> : x \in Vals, y \in Vals, w \in WVals}
Mats  == UNION {[1..m -> RowsV] : m \in 1..MaxM}

Init == /\ seq \in Seqs /\ pssm \in Mats /\ rng = <<0, 0>> /\ phase = "input"
Pick == /\ phase = "input"
        /\ \E a \in 0..NRows(Len(seq), C) : \E b \in a..NRows(Len(seq), C) : rng' = <<a, b>>
        /\ phase' = "scored"
        /\ UNCHANGED <<seq, pssm>>
Next == Pick
Spec == Init /\ [][Next]_<<seq, pssm, rng, phase>>

L == Len(seq)
M == Len(pssm)
R == NRows(L, C)
Data == StripedData(seq, C, M - 1, W)        \* configure_wrap(M - 1)

\* the scores as the kernel computes them for rows rng[1]..rng[2]-1
Cells == IF L < M \/ rng[1] >= rng[2] THEN <<>>
         ELSE [r \in 1..(rng[2] - rng[1]) |-> [c \in 1..C |-> KernelCell(pssm, Data, rng[1] + r - 1, c - 1)]]
Event == [seq |-> seq, pssm |-> pssm, C |-> C, K |-> K, a |-> rng[1], b |-> rng[2],
          nrows |-> Len(Cells), max_index |-> IF Cells = <<>> THEN 0 ELSE L - M + 1, cells |-> Cells]

KernelRefines == phase = "scored" => ShapeOK(Event) /\ BadCells(Event) = {} /\ OddPadCells(Event) = {}
\* the full scan, unstriped in column-major order and cut at max_index, lists the window scores
FullScanOK == (phase = "scored" /\ rng = <<0, R>> /\ L >= M /\ R > 0) =>
                [i \in 1..(L - M + 1) |-> Cells[((i - 1) % R) + 1][((i - 1) \div R) + 1]] = UnstripeDef(pssm, seq, W)
=============================================================================
