------------------------------ MODULE MC_Reader ------------------------------
(***************************************************************************)
(* I-layer model of the JASPAR / JASPAR16 stream reader                    *)
(* (lightmotif-io/src/jaspar/mod.rs, jaspar16/mod.rs): the byte buffer,    *)
(* the `start` offset of the current record, read_until('>'), the slice    *)
(* handed to the record parser, the `start` update from the unparsed rest  *)
(* and the compaction of the buffer when `start` passes half the capacity  *)
(* (capacity chosen nondeterministically - it is an allocator decision).   *)
(* Tokens: ">" (record marker), "w" (white space), "x" (anything else).  A file is an      *)
(* optional preamble, then records ">" x^b.  read_until is specified by    *)
(* its std contract (up to and including the delimiter, or to EOF), which  *)
(* makes the reader independent of the chunking by construction.           *)
(* Refinement against Reader.tla: the k-th request returns exactly the     *)
(* k-th record (its whole body), then none; no panic.                      *)
(* Underflow = TRUE models Reader::new as originally coded (`n - 1`).      *)
(***************************************************************************)
EXTENDS Naturals, Sequences, TLC

CONSTANTS MaxRec, MaxBody, MaxSlack, Underflow

VARIABLES file,    \* sequence of tokens
          bodies,  \* expected body length of each record
          pos,     \* tokens consumed from the stream
          buf, start, cap, out, status

Body(b) == [i \in 1..b |-> "x"]
RECURSIVE Render(_)
Render(bs) == IF bs = <<>> THEN <<>> ELSE <<">">> \o Body(Head(bs)) \o Render(Tail(bs))

BodySeqs == UNION {[1..n -> 1..MaxBody] : n \in 0..MaxRec}

Init == /\ bodies \in BodySeqs
        /\ \E pre \in 0..1 : file = [i \in 1..pre |-> "w"] \o Render(bodies)    \* optional blank line first
        /\ pos = 0 /\ buf = <<>> /\ start = 0 /\ cap = 0 /\ out = 0 /\ status = "new"

\* read_until('>'): number of tokens up to and including the next ">" (or to the end)
RECURSIVE Until(_)
Until(p) == IF p >= Len(file) THEN 0 ELSE IF file[p + 1] = ">" THEN 1 ELSE 1 + Until(p + 1)

Caps(len, old) == IF len <= old THEN {old} ELSE len..(len + MaxSlack)

New == /\ status = "new"
       /\ LET n == Until(pos) IN
          /\ buf' = SubSeq(file, pos + 1, pos + n)
          /\ pos' = pos + n
          /\ cap' \in Caps(n, 0)
          /\ IF n = 0 /\ Underflow THEN status' = "panic" /\ start' = 0
             ELSE status' = "ready" /\ start' = IF n = 0 THEN 0 ELSE n - 1
       /\ UNCHANGED <<file, bodies, out>>

Next1 ==
  /\ status = "ready"
  /\ LET n == Until(pos)
         b2 == buf \o SubSeq(file, pos + 1, pos + n)
         lo == start + 1                                   \* 1-based first index of the slice
         hi == IF n = 0 THEN Len(b2) ELSE start + n + 1    \* buffer[start..=start+n]
     IN IF hi > Len(b2) \/ lo > Len(b2) + 1
        THEN status' = "panic" /\ UNCHANGED <<buf, start, cap, out, pos>>      \* slice index out of range
        ELSE LET slice == SubSeq(b2, lo, hi) IN
             IF n = 0 /\ \A i \in 1..Len(slice) : slice[i] = "w"      \* text.trim().is_empty()
             THEN status' = "done" /\ UNCHANGED <<buf, start, cap, out, pos>>
             ELSE IF slice = <<>> \/ slice[1] # ">" \/ Len(slice) < 2 \/ slice[2] = ">"
             THEN status' = "error" /\ UNCHANGED <<buf, start, cap, out, pos>>  \* header / matrix parse error
             ELSE \* record = ">" x^k ; rest = the trailing ">" if the slice ends with one
                  LET rest == IF slice[Len(slice)] = ">" THEN 1 ELSE 0
                      k    == Len(slice) - 1 - rest
                      st2  == start + n + 1 - rest
                  IN /\ pos' = pos + n
                     /\ out' = out + 1
                     /\ \E c2 \in Caps(Len(b2), cap) :
                          /\ cap' = c2
                          /\ IF st2 > c2 \div 2
                             THEN buf' = SubSeq(b2, st2 + 1, Len(b2)) /\ start' = 0
                             ELSE buf' = b2 /\ start' = st2
                     /\ status' = IF out < Len(bodies) /\ k = bodies[out + 1] THEN "ready" ELSE "wrong_record"
  /\ UNCHANGED <<file, bodies>>

Next == New \/ Next1
vars == <<file, bodies, pos, buf, start, cap, out, status>>
Spec == Init /\ [][Next]_vars

NoPanic     == status # "panic"
ExactRecord == status # "wrong_record" /\ status # "error"
Complete    == status = "done" => out = Len(bodies)
StartAtMark == (status = "ready" /\ pos < Len(file)) => (start < Len(buf) /\ buf[start + 1] = ">")
=============================================================================
