------------------------------ MODULE MC_Encode ------------------------------
(***************************************************************************)
(* Bounded exhaustive check that the block encoders (I-layer) compute      *)
(* EncodeDef (D-layer): all strings over two letters and two non-letters   *)
(* up to length 2W+2, both loop tests.  One state per string.              *)
(***************************************************************************)
EXTENDS Encode, TLC

CONSTANTS W, MaxLen

VARIABLES bytes, done

Letters == <<65, 67, 78>>
Rank    == RankTable(Letters)
Alpha   == {65, 67, 46, 200}        \* 'A', 'C', '.', 0xC8

Init == bytes = <<>> /\ done = FALSE
Extend == \E b \in Alpha : Len(bytes) < MaxLen /\ bytes' = Append(bytes, b) /\ done' = FALSE
Next == Extend
Spec == Init /\ [][Next]_<<bytes, done>>

RefinesLe == BlockEncode(bytes, Rank, W, "le") = EncodeDef(bytes, Rank)
RefinesLt == BlockEncode(bytes, Rank, W, "lt") = EncodeDef(bytes, Rank)
RoundTrip == EncodeDef(bytes, Rank).ok => DisplayDef(EncodeDef(bytes, Rank).syms, Letters) = bytes
AcceptIff == EncodeDef(bytes, Rank).ok <=> \A i \in 1..Len(bytes) : bytes[i] \in {65, 67, 78}
=============================================================================
