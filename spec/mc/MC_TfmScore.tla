----------------------------- MODULE MC_TfmScore -----------------------------
(***************************************************************************)
(* Bounded exhaustive refinement check for C13: the first two refinement   *)
(* steps of approximate_score (Tfm!LookupScore at g = 1/10, then 1/100     *)
(* over the window derived from the first threshold) for every matrix over *)
(* CellVals (units 1/4) of width 2..MaxM over two symbols, two backgrounds,*)
(* every admissible row permutation and every p = k / (2 bd^M).  Each step *)
(* must satisfy, with d = (M + 2) g:                                       *)
(*      P(S >= t + d) <= p     and     P(S >= u - d) >= p                  *)
(* for the largest attainable u below t - d, and must not index past the   *)
(* key list.  NarrowMargin = TRUE replaces the window margin               *)
(* ceil(error_max + 0.5) by round(error_max) (negative control).           *)
(***************************************************************************)
EXTENDS Tfm, TLC

CONSTANTS MaxM, CellVals, NarrowMargin

VARIABLES m, bn, p, pn

K == 3
G == 4
Bgs == {<<1, 1, 0>>, <<3, 1, 0>>}
RowsV == {<<x, y, NINF>> : x \in CellVals, y \in CellVals}
Mats == UNION {[1..n -> RowsV] : n \in 2..MaxM}

Init == m = <<>> /\ bn = <<>> /\ p = <<>> /\ pn = 0
PickMatrix == /\ m = <<>>
              /\ \E mm \in Mats : m' = mm /\ p' \in Perms(mm, K)
              /\ bn' \in Bgs /\ pn' = 0
PickP == /\ m # <<>> /\ pn = 0
         /\ pn' \in 1..(2 * Pow(bn[1] + bn[2], Len(m)) - 1)
         /\ UNCHANGED <<m, bn, p>>
Next == PickMatrix \/ PickP
Spec == Init /\ [][Next]_<<m, bn, p, pn>>

\* the threshold t = (alpha - offS) / GI against the exact tail; matrix cells in 1/G
StepOK(D, M, GI, alpha, offS, den) ==
  LET tk == alpha - offS
      d == M + 2
      above == TailWhere(D, LAMBDA w : w * GI >= G * (tk + d))
      below == {w \in Attainable(D) : w * GI < G * (tk - d)}
  IN /\ above * 2 <= pn
     /\ below # {} => LET u == SetMax(below) IN TailWhere(D, LAMBDA w : (w - u) * GI >= -(G * d)) * 2 >= pn

Marg(e) == IF NarrowMargin THEN (2 * e + G) \div (2 * G) ELSE Margin(e, G)     \* round(e/G) vs ceil(e/G + 1/2)

Refines == (m # <<>> /\ pn # 0) =>
  LET M == Len(m)
      bd == bn[1] + bn[2]
      D == ConvDist(m, bn, K)
      \* initial window at g = 1/10: min = sum of row minima (0 after offsets), max = sum of row maxima + margin
      raw1 == IntRaw(m, p, K, 10, G)
      im1 == IntM(raw1, K)
      e1 == ErrMaxG(m, p, K, 10, G)
      s1 == LookupScore(m, p, bn, bd, K, 10, G, pn, 2, 0, SuffixMax(im1, K, 1) + Marg(e1))
      \* second step at g = 1/100 over the window derived from the first threshold
      mn2 == (s1.alpha - Marg(s1.e)) * 10
      mx2 == (s1.alpha + Marg(s1.e)) * 10
      s2 == LookupScore(m, p, bn, bd, K, 100, G, pn, 2, mn2, mx2)
  IN /\ ~s1.panic
     /\ StepOK(D, M, 10, s1.alpha, s1.offS, Pow(bd, M))
     /\ s1.conv \/ (~s2.panic /\ StepOK(D, M, 100, s2.alpha, s2.offS, Pow(bd, M)))
=============================================================================
