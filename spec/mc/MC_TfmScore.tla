----------------------------- MODULE MC_TfmScore -----------------------------
(***************************************************************************)
(* Bounded exhaustive refinement check for C13: the first two refinement   *)
(* steps of approximate_score (Tfm!LookupScore at g = 1/10, then 1/100     *)
(* over the window derived from the first threshold) for every matrix over *)
(* CellVals (units 1/4) of width 2..MaxM over two symbols, two backgrounds,*)
(* every admissible row permutation and every p = k / (2 bd^M).  Each step *)
(* must satisfy, with d = (M + 2) g:                                       *)
(*      P(S >= t + d) <= p     and     P(S >= u - d) >= p                  *)
(* for the largest attainable u below t - d, and must not index past the   *)
(* key list.  NarrowMargin = TRUE replaces the window margin               *)
(* ceil(error_max + 0.5) by round(error_max) (negative control).           *)
(* OffsetWindow = TRUE carries the window to the next granularity in the   *)
(* OFFSET integer units of the previous one, as originally coded (the row  *)
(* offsets -floor(min/g) are not ten times the previous ones, so the       *)
(* window is displaced by up to 9 M units: negative control); FALSE is the *)
(* repaired iterator, which keeps the window free of offsets.              *)
(***************************************************************************)
EXTENDS Tfm, TLC

CONSTANTS MaxM, CellVals, NarrowMargin, OffsetWindow, G,      \* G: cells are in units of 1/G
          K                                                 \* alphabet size incl. the wildcard column

\* cell sets with negative entries (a cfg file cannot hold negative literals)
SignedA == {-7, -3, 2, 5}
SignedB == {-9, -5, -1, 6}
SignedC == {-7, 0, 5}
SignedD == {-33, -5, 21, 42}
SignedE == {-45, -28, 11, 26}
SignedF == {-37, -3, 16}

VARIABLES m, bn, p, pn

Bgs == {<<1, 1, 0>>, <<3, 1, 0>>}
RowsV == {<<x, y, NINF>> : x \in CellVals, y \in CellVals}
Mats == UNION {[1..n -> RowsV] : n \in 2..MaxM}
Pns(M, bd) == 1..(2 * Pow(bd, M) - 1)                      \* p = pn / (2 bd^M)

\* The recorded execution that exposed the displaced window on the real code (thorough run, seed 1, history 302: DNA,
\* M = 5, cells in 1/16, background (1,3,3,1)/8, p = 271 / (2 * 8^5)): substituted for Mats / Bgs / Pns in the
\* configurations MC_TfmScore_witness (repaired window: holds) and MC_TfmScore_neg_offset_window (as coded: violated).
WitnessMats == {<< <<42, 38, -33, 5, NINF>>, <<48, -45, -44, 26, NINF>>, <<-28, 16, 1, -5, NINF>>,
                   <<-37, -30, 21, 11, NINF>>, <<0, -27, -37, -42, NINF>> >>}
WitnessBgs == {<<1, 3, 3, 1, 0>>}
WitnessPns(M, bd) == 265..277

Init == m = <<>> /\ bn = <<>> /\ p = <<>> /\ pn = 0
PickMatrix == /\ m = <<>>
              /\ \E mm \in Mats : m' = mm /\ p' \in Perms(mm, K)
              /\ bn' \in Bgs /\ pn' = 0
PickP == /\ m # <<>> /\ pn = 0
         /\ pn' \in Pns(Len(m), PlainSum(bn, K))
         /\ UNCHANGED <<m, bn, p>>
Next == PickMatrix \/ PickP
Spec == Init /\ [][Next]_<<m, bn, p, pn>>

\* the threshold t = (alpha - offS) / GI against the exact tail; matrix cells in 1/G
StepOK(D, M, GI, alpha, offS, den) ==
  LET tk == alpha - offS
      d == M + 2
      above == TailWhere(D, LAMBDA w : w * GI >= G * (tk + d))
      below == {w \in Attainable(D) : w * GI < G * (tk - d)}
  IN /\ above * 2 <= pn
     /\ below # {} => LET u == SetMax(below) IN TailWhere(D, LAMBDA w : (w - u) * GI >= -(G * d)) * 2 >= pn

Marg(e) == IF NarrowMargin THEN (2 * e + G) \div (2 * G) ELSE Margin(e, G)     \* round(e/G) vs ceil(e/G + 1/2)

Refines == (m # <<>> /\ pn # 0) =>
  LET M == Len(m)
      bd == PlainSum(bn, K)
      D == ConvDist(m, bn, K)
      \* initial window at g = 1/10: min = sum of row minima (0 after offsets), max = sum of row maxima + margin
      raw1 == IntRaw(m, p, K, 10, G)
      im1 == IntM(raw1, K)
      e1 == ErrMaxG(m, p, K, 10, G)
      s1 == LookupScore(m, p, bn, bd, K, 10, G, pn, 2, 0, SuffixMax(im1, K, 1) + Marg(e1))
      \* second step at g = 1/100 over the window derived from the first threshold
      off2 == PlainSum(Offs(IntRaw(m, p, K, 100, G), K), M)
      mn2 == IF OffsetWindow THEN (s1.alpha - Marg(s1.e)) * 10 ELSE (s1.alpha - s1.offS - Marg(s1.e)) * 10 + off2
      mx2 == IF OffsetWindow THEN (s1.alpha + Marg(s1.e)) * 10 ELSE (s1.alpha - s1.offS + Marg(s1.e)) * 10 + off2
      s2 == LookupScore(m, p, bn, bd, K, 100, G, pn, 2, mn2, mx2)
  IN /\ ~s1.panic
     /\ StepOK(D, M, 10, s1.alpha, s1.offS, Pow(bd, M))
     /\ s1.conv \/ (~s2.panic /\ StepOK(D, M, 100, s2.alpha, s2.offS, Pow(bd, M)))
=============================================================================
