------------------------------ MODULE MC_PyObj ------------------------------
(***************************************************************************)
(* Bounded exhaustive model of the two mechanisms behind C18:              *)
(*  - __getitem__ index normalisation (lib.rs): for every length n and     *)
(*    index i the outcome must be the sequence-protocol one (PyObj         *)
(*    GetItemOK).  AccessNormalised = FALSE models the original code,      *)
(*    which checked the normalised index but accessed with the raw one.    *)
(*  - buffer views: a view (shape, strides in elements) over a matrix of   *)
(*    M rows x K logical cells stored with row stride S >= K must address, *)
(*    for every index inside `shape`, a logical cell - the one it stands   *)
(*    for - and never padding or memory past the matrix.  ShapeRowsFirst = *)
(*    FALSE models the original ScoringMatrix view (shape (K, M) with the  *)
(*    strides of (M, K)).                                                  *)
(***************************************************************************)
EXTENDS PyObj, TLC

CONSTANTS MaxLen, AccessNormalised, ShapeRowsFirst

VARIABLES n, i, M, K, S

Init == /\ n \in 0..MaxLen /\ i \in (-MaxLen - 2)..(MaxLen + 1)
        /\ M \in 1..4 /\ K \in {2, 5} /\ S \in {K, 8}
Spec == Init /\ [][FALSE /\ UNCHANGED <<n, i, M, K, S>>]_<<n, i, M, K, S>>

\* I-layer: __getitem__ as coded
GetItem ==
  LET j == IF i < 0 THEN i + n ELSE i IN
  IF j < 0 \/ j >= n THEN [k |-> "IndexError", v |-> 0]
  ELSE IF AccessNormalised THEN [k |-> "ok", v |-> j]
  ELSE IF i < 0 THEN [k |-> "panic", v |-> 0] ELSE [k |-> "ok", v |-> i]

\* logical sequence 0..n-1 (element = its own position)
IndexOK == GetItemOK([q \in 1..n |-> q - 1], <<[i |-> i, k |-> GetItem.k, v |-> GetItem.v]>>)

\* I-layer: the view of a scoring matrix: shape and strides (in elements)
Shape   == IF ShapeRowsFirst THEN <<M, K>> ELSE <<K, M>>
Strides == <<S, 1>>
\* every addressed element is the logical cell it stands for (either reading of the two axes)
ViewOK == \A a \in 0..(Shape[1] - 1) : \A b \in 0..(Shape[2] - 1) :
            LET off == a * Strides[1] + b * Strides[2]
                row == off \div S  col == off % S
            IN /\ row < M /\ col < K                               \* inside the logical cells
               /\ (ShapeRowsFirst /\ row = a /\ col = b) \/ (~ShapeRowsFirst /\ row = b /\ col = a)
=============================================================================
