------------------------------ MODULE MC_Scores ------------------------------
(***************************************************************************)
(* Bounded exhaustive model of the StripedScores object (spec/Scores.tla): *)
(*  - every history of A-layer operations up to MaxDepth on one table with *)
(*    C columns, at most MaxRows rows, cells in 0..K-1, any recorded       *)
(*    number of valid positions (smaller than, equal to and larger than    *)
(*    the table);                                                          *)
(*  - the iterator as coded (a range of indices, each mapped to its cell   *)
(*    when yielded) run in lock-step with the D-layer meaning of the       *)
(*    iteration requests (IterRefines); the coordinate-cursor variant      *)
(*    (Cursors = TRUE) is the negative control;                            *)
(*  - facts the callers rely on as invariants of every reachable state:    *)
(*    the linear view never exceeds the table or the recorded length       *)
(*    (LenOK), resizing keeps the cells of the rows that stay and zeroes   *)
(*    the new ones (ResizeKeeps), Index agrees with the linear view on     *)
(*    every valid position (IndexLinear), the maximum dominates every      *)
(*    valid position and the threshold offsets are exactly the cells at    *)
(*    or above the threshold, in increasing order, so that no valid        *)
(*    position is lost (ReduceCovers), offsets are a bijection between     *)
(*    coordinates and positions (OffsetBij);                               *)
(*  - one REPLAY line per complete history, replayed on the real           *)
(*    StripedScores<u8 | u32 | f32, C> (spec -> impl): the histories of    *)
(*    the linear view (OpsMode = "linear") in the check of C01, whose      *)
(*    "value at position i" is read through it, those of the reductions    *)
(*    (OpsMode = "reduce") in the check of C07.                            *)
(***************************************************************************)
EXTENDS Scores, TLC, Json

CONSTANTS C, K, MaxRows, MaxDepth, Cursors, Emit,
          OpsMode    \* "all" | "linear" (the view of the scores: C01) | "reduce" (maximum / threshold / offsets: C07)

VARIABLES st, hist, last

Vals == 0..(K - 1)
Pats == { << <<"f", 0>>, <<"b", 0>>, <<"f", 0>>, <<"b", 0>> >>,
          << <<"b", 0>>, <<"b", 0>>, <<"f", 0>> >>,
          << <<"b", 1>>, <<"f", 1>>, <<"b", 0>> >>,
          << <<"f", 2>>, <<"b", 0>>, <<"b", 1>> >>,
          << <<"b", 0>>, <<"b", 0>>, <<"b", 0>>, <<"b", 0>>, <<"b", 0>> >> }

InMode(o) == \/ OpsMode = "all"
             \/ OpsMode = "linear" /\ o.op \in {"resize", "set", "fill", "unstripe", "index", "iter_ends"}
             \/ OpsMode = "reduce" /\ o.op \in {"resize", "set", "fill", "offset", "max", "threshold"}

AllOps ==
     {[op |-> "resize", r |-> r, mi |-> mi] : r \in 0..MaxRows, mi \in 0..(MaxRows * C + 1)}
  \cup {[op |-> "set", i |-> i, j |-> j, v |-> v] : i \in 1..MaxRows, j \in 1..C, v \in Vals \ {0}}
  \cup {[op |-> "fill", v |-> v] : v \in Vals \ {0}}
  \cup {[op |-> "unstripe"], [op |-> "max"], [op |-> "is_empty"], [op |-> "max_index"]}
  \cup {[op |-> "index", i |-> i] : i \in 0..(MaxRows * C - 1)}
  \cup {[op |-> "offset", i |-> i, j |-> j] : i \in 1..MaxRows, j \in 1..C}
  \cup {[op |-> "iter_ends", pat |-> p] : p \in Pats}
  \cup {[op |-> "threshold", t |-> t] : t \in 1..(K - 1)}
Ops(s) == {o \in AllOps : InMode(o)}

Init == /\ st = ScoresInit
        /\ hist = <<>>
        /\ last = [op |-> [op |-> "init"], pre |-> ScoresInit, obs |-> 0]

Do(o) == /\ Len(hist) < MaxDepth
         /\ ScoresInContract(st, o, C)
         /\ LET r == ScoresStep(st, o, C) IN
              /\ st' = r.st
              /\ hist' = Append(hist, [op |-> o, obs |-> r.obs, post |-> r.st])
              /\ last' = [op |-> o, pre |-> st, obs |-> r.obs]

Resize  == \E o \in Ops(st) : o.op = "resize" /\ Do(o)
Write   == \E o \in Ops(st) : o.op \in {"set", "fill"} /\ Do(o)
Read    == \E o \in Ops(st) : o.op \in {"unstripe", "index", "offset", "is_empty", "max_index"} /\ Do(o)
Iterate == \E o \in Ops(st) : o.op = "iter_ends" /\ Do(o)
Reduce  == \E o \in Ops(st) : o.op \in {"max", "threshold"} /\ Do(o)

Next == Resize \/ Write \/ Read \/ Iterate \/ Reduce
vars == <<st, hist, last>>
Spec == Init /\ [][Next]_vars
View == <<st, last, Len(hist)>>

\* ---------------------------------------------------------------- properties
TypeOK == /\ Len(st.m) \in 0..MaxRows
          /\ \A i \in 1..Len(st.m) : st.m[i] \in [1..C -> Vals]
          /\ st.mi \in 0..(MaxRows * C + 1)

LenOK == NValid(st, C) <= st.mi /\ NValid(st, C) <= Cells(st, C) /\ Len(Linear(st, C)) = NValid(st, C)

ResizeKeeps ==
  last.op.op = "resize" =>
    /\ Len(st.m) = last.op.r /\ st.mi = last.op.mi
    /\ \A i \in 1..Len(st.m) : st.m[i] = IF i <= Len(last.pre.m) THEN last.pre.m[i] ELSE [j \in 1..C |-> 0]
    \* with the same rows a larger recorded length only extends the linear view
    /\ (Len(st.m) = Len(last.pre.m) /\ st.mi >= last.pre.mi) =>
          \A i \in 1..NValid(last.pre, C) : Linear(st, C)[i] = Linear(last.pre, C)[i]

ReadsPure == last.op.op \in {"unstripe", "index", "offset", "iter_ends", "max", "threshold", "is_empty", "max_index"} => st = last.pre

\* an empty object has an empty linear view (not conversely: rows without valid positions)
EmptyView == last.op.op = "is_empty" /\ last.obs = 1 => NValid(st, C) = 0

IndexLinear ==
  /\ last.op.op = "index" /\ last.op.i < NValid(st, C) => last.obs = Linear(st, C)[last.op.i + 1]
  /\ last.op.op = "unstripe" => \A i \in 1..Len(last.obs) : last.obs[i] = CellAtPos(st, i - 1)

\* offset is the inverse of the position -> cell map: the cell at coordinates (i, j) is the cell Index returns for offset(i, j)
OffsetBij ==
  last.op.op = "offset" =>
    /\ last.obs \in 0..(Cells(st, C) - 1)
    /\ CellAtPos(st, last.obs) = st.m[last.op.i][last.op.j]
    /\ \A i2 \in 1..RowsOf(st), j2 \in 1..C :
         (<<i2, j2>> # <<last.op.i, last.op.j>>) => ScoresStep(st, [op |-> "offset", i |-> i2, j |-> j2], C).obs # last.obs

ReduceCovers ==
  /\ last.op.op = "max" =>
       /\ (last.obs = <<>>) <=> (RowsOf(st) = 0)
       /\ last.obs # <<>> => /\ \A i \in 1..NValid(st, C) : Linear(st, C)[i] <= last.obs[1]
                             /\ \E x \in 0..(Cells(st, C) - 1) : CellAtPos(st, x) = last.obs[1]
                             /\ ArgmaxOffsetOK(st, C, <<CHOOSE x \in 0..(Cells(st, C) - 1) : CellAtPos(st, x) = last.obs[1]>>)
  /\ last.op.op = "threshold" =>
       /\ \A q \in 1..Len(last.obs) : last.obs[q] \in 0..(Cells(st, C) - 1) /\ CellAtPos(st, last.obs[q]) >= last.op.t
       /\ \A q \in 1..(Len(last.obs) - 1) : last.obs[q] < last.obs[q + 1]
       \* no valid position at or above the threshold is lost
       /\ \A i \in 1..NValid(st, C) : Linear(st, C)[i] >= last.op.t => \E q \in 1..Len(last.obs) : last.obs[q] = i - 1

\* the iterator as coded (or the cursor variant) yields what the D-layer walk over the linear view yields
IterRefines ==
  last.op.op = "iter_ends" => last.obs = IWalk(st, C, last.op.pat, 1, 0, NValid(st, C), Cursors)

\* plain requests: front yields are the first positions, back yields the last ones in reverse, nothing twice
IterExact ==
  (last.op.op = "iter_ends" /\ \A q \in 1..Len(last.op.pat) : last.op.pat[q][2] = 0) =>
    LET w  == last.obs.y
        pt == last.op.pat
        n  == NValid(st, C)
        lin == Linear(st, C)
        nf(q) == Cardinality({x \in 1..q : pt[x][1] = "f" /\ w[x] # NoneS})
        nb(q) == Cardinality({x \in 1..q : pt[x][1] = "b" /\ w[x] # NoneS})
    IN /\ \A q \in 1..Len(w) : w[q] # NoneS => w[q] = IF pt[q][1] = "f" THEN lin[nf(q)] ELSE lin[n + 1 - nb(q)]
       /\ nf(Len(w)) + nb(Len(w)) + last.obs.n = n
       /\ Len(pt) >= n => last.obs.n = 0

EmitReplay == (Emit /\ Len(hist) = MaxDepth) => PrintT("REPLAY " \o ToJson(hist))
=============================================================================
