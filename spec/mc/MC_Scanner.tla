----------------------------- MODULE MC_Scanner -----------------------------
(***************************************************************************)
(* I-layer model of lightmotif/src/scan.rs (Scanner::next and ::max) and   *)
(* its refinement against the A-layer of Scanner.tla, exhaustively for     *)
(* every sequence over two symbols + wildcard up to MaxLen, every matrix   *)
(* over Vals of width 1..MaxM, every threshold on the grid between the     *)
(* minimum - 1 and the maximum + 1, every block size in BlockSizes, C = 2  *)
(* columns.                                                                *)
(*                                                                         *)
(* One action per loop iteration of the code:                              *)
(*   ScanBlock  score rows row..end with the saturating 8-bit kernel over  *)
(*              the exactly discretised matrix, skip the block when its    *)
(*              maximum is below the byte threshold, re-score candidates   *)
(*              with the real matrix, buffer hits, row += bs               *)
(*   Pop        next() returns the last buffered hit                       *)
(*   Finish     next() returns None                                        *)
(*   MaxCall    Scanner::max from the current state (buffered hits, then   *)
(*              the remaining blocks with the best/best_discrete pruning)  *)
(* The parameters select the code as repaired (TRUE, TRUE, TRUE, "scale")  *)
(* or as originally written (negative controls, DESIGN.md section 7 #4-6): *)
(*   SeqRowsOnly   loop bound = sequence rows (FALSE: all matrix rows)     *)
(*   BoundIndex    candidates beyond the last valid position are ignored   *)
(*   CheckFirst    the first candidate of max() must meet the threshold    *)
(*   BoundFrom     "scale": best_discrete = scale(best score);             *)
(*                 "dscore": = the candidate's 8-bit score                 *)
(***************************************************************************)
EXTENDS Scanner, Discrete, TLC

CONSTANTS C, MaxLen, MaxM, Vals, BlockSizes, SeqRowsOnly, BoundIndex, CheckFirst, BoundFrom

VARIABLES seq, pssm, thr, bs,        \* inputs
          row, hits, yielded, status, \* scanner state: next row, buffered hits, returned positions
          maxret                      \* result of MaxCall: <<>> (not called) | <<"none">> | <<"hit", pos, score>>

K == 3
W == 2
Seqs  == UNION {[1..n -> 0..(K - 1)] : n \in 0..MaxLen}
RowsV == {<<x, y, NINF>> : x \in Vals, y \in Vals}
Mats  == UNION {[1..m -> RowsV] : m \in 1..MaxM}

\* A matrix whose 8-bit rounding REORDERS two windows (rows (0,15), (0,121), (0,137): the word (1,1,0) scores 136 with
\* 8-bit score 15 + 114 = 129, the word (0,0,1) scores 137 with 8-bit score 128): substituted for Mats in the
\* configurations MC_Scanner_reorder (repaired bound: MaxRefines holds) and MC_Scanner_neg_dscore_bound (best_discrete
\* taken from the candidate's 8-bit score, as originally coded: the better window is pruned).
WitnessMats == {<< <<0, 15, NINF>>, <<0, 121, NINF>>, <<0, 137, NINF>> >>}

L == Len(seq)
M == Len(pssm)
R == NRows(L, C)
Wrap == M - 1                                   \* configure(&pssm)
Positions == NScores(L, M)
Rg  == Range(pssm, K)
Off == Offsets(pssm, K)
OffS == OffsetSum(pssm, K)
\* to_discrete / scale as computed in f32: a zero range gives NaN -> 0 cells and a 0 / 255 threshold
D == [i \in 1..M |-> [k \in 1..K |-> IF k = K \/ Rg = 0 THEN 0 ELSE DiscExact(pssm[i][k], Off[i], Rg)]]
Scale(x) == IF x = NINF THEN 0 ELSE IF Rg = 0 THEN (IF x > OffS THEN 255 ELSE 0) ELSE ScaleExact(x, OffS, Rg)
DScore(i) == SatScore(D, seq, i, W)
Real(i)   == WindowScore(pssm, seq, i, W)
Limit == IF SeqRowsOnly THEN R ELSE R + Wrap

Thrs(p) == (OffsetSum(p, K) - 1)..(MaxSum(p, K) + 1)       \* every threshold from below the minimum to above the maximum
WitnessThrs(p) == {-1, 0, 15, 136, 137, 138}
WitnessSeqs == {<<2, 1, 1, 0, 0, 0, 0, 1>>, <<0, 0, 0, 1, 1, 0>>}

Init == /\ seq \in Seqs /\ pssm \in Mats /\ bs \in BlockSizes
        /\ thr \in Thrs(pssm)
        /\ row = 0 /\ hits = <<>> /\ yielded = {} /\ status = "run" /\ maxret = <<>>

\* cells of the block in the order Threshold::threshold yields them (row-major)
BlockCells(a, b) == [q \in 1..((b - a) * C) |-> <<a + ((q - 1) \div C), (q - 1) % C>>]

\* re-scoring position `index` panics when the window leaves the striped matrix
OutOfMatrix(index) == index + M - 1 >= R * C

LoopGuard == IF SeqRowsOnly THEN row < R /\ Positions > 0 ELSE row < Limit

ScanBlock ==
  /\ status = "run" /\ hits = <<>> /\ LoopGuard
  /\ LET end == Min2(row + bs, R)
         empty == L < M \/ row >= end                   \* score_rows_into leaves an empty table
         cells == IF empty THEN <<>> ELSE BlockCells(row, end)
         t == Scale(thr)
         cand == SelectSeq(cells, LAMBDA rc : DScore(rc[2] * R + rc[1]) >= t)
         kept == IF BoundIndex THEN SelectSeq(cand, LAMBDA rc : rc[2] * R + rc[1] < Positions) ELSE cand
         boom == \E q \in 1..Len(kept) : OutOfMatrix(kept[q][2] * R + kept[q][1])
         good == SelectSeq(kept, LAMBDA rc : Real(rc[2] * R + rc[1]) >= thr)
     IN IF empty \/ boom
        THEN status' = "panic" /\ UNCHANGED <<hits, row>>       \* max(None).unwrap() / index out of bounds
        ELSE /\ hits' = [q \in 1..Len(good) |-> good[q][2] * R + good[q][1]]
             /\ row' = row + bs
             /\ status' = "run"
  /\ UNCHANGED <<seq, pssm, thr, bs, yielded, maxret>>

Pop ==
  /\ status = "run" /\ hits # <<>>
  /\ yielded' = yielded \cup {hits[Len(hits)]}
  /\ hits' = SubSeq(hits, 1, Len(hits) - 1)
  /\ UNCHANGED <<seq, pssm, thr, bs, row, status, maxret>>

Finish ==
  /\ status = "run" /\ hits = <<>> /\ ~LoopGuard
  /\ status' = "done"
  /\ UNCHANGED <<seq, pssm, thr, bs, row, hits, yielded, maxret>>

\* ---- Scanner::max as a fold over the remaining blocks --------------------
\* acc = [best |-> <<>> | <<pos, score>>, bd |-> byte bound, panic |-> BOOLEAN]
Better(best, pos, sc) == best = <<>> \/ sc > best[2] \/ (sc = best[2] /\ pos > best[1])

RECURSIVE CandFold(_, _, _)
CandFold(cells, q, acc) ==
  IF q > Len(cells) \/ acc.panic THEN acc
  ELSE LET rc == cells[q]
           index == rc[2] * R + rc[1]
           ds == DScore(index)
       IN IF ds < acc.bd \/ (BoundIndex /\ index >= Positions) THEN CandFold(cells, q + 1, acc)
          ELSE IF OutOfMatrix(index) THEN [acc EXCEPT !.panic = TRUE]
          ELSE LET sc == Real(index) IN
               IF acc.best = <<>>
               THEN IF CheckFirst /\ sc < thr THEN CandFold(cells, q + 1, acc)
                    ELSE CandFold(cells, q + 1,
                           [acc EXCEPT !.best = <<index, sc>>,
                                       !.bd = IF CheckFirst THEN Scale(sc) ELSE acc.bd])
               ELSE IF Better(acc.best, index, sc)
                    THEN CandFold(cells, q + 1,
                           [acc EXCEPT !.best = <<index, sc>>, !.bd = IF BoundFrom = "scale" THEN Scale(sc) ELSE ds])
                    ELSE CandFold(cells, q + 1, acc)

RECURSIVE BlockFold(_, _)
BlockFold(r, acc) ==
  IF acc.panic \/ ~(IF SeqRowsOnly THEN r < R /\ Positions > 0 ELSE r < Limit) THEN acc
  ELSE LET end == Min2(r + bs, R)
           empty == L < M \/ r >= end
       IN IF empty THEN [acc EXCEPT !.panic = TRUE]
          ELSE LET cells == BlockCells(r, end)
                   bmax == SetMax({DScore(cells[q][2] * R + cells[q][1]) : q \in 1..Len(cells)})
               IN BlockFold(r + bs,
                            IF bmax >= acc.bd
                            THEN \* candidates are selected with the bound at block entry, then re-checked one by one
                                 CandFold(SelectSeq(cells, LAMBDA rc : DScore(rc[2] * R + rc[1]) >= acc.bd), 1, acc)
                            ELSE acc)

BufferedBest ==
  LET ok == {q \in 1..Len(hits) : Real(hits[q]) >= thr} IN
  IF ok = {} THEN <<>>
  ELSE LET top == SetMax({Real(hits[q]) : q \in ok})
           q0  == CHOOSE q \in ok : Real(hits[q]) = top /\ \A q2 \in ok : Real(hits[q2]) = top => q2 <= q
       IN <<hits[q0], top>>

MaxCall ==
  /\ status = "run"
  /\ LET b0 == BufferedBest
         acc == BlockFold(row, [best |-> b0, bd |-> IF b0 = <<>> THEN Scale(thr) ELSE Scale(b0[2]), panic |-> FALSE])
     IN IF acc.panic THEN status' = "panic" /\ maxret' = <<>>
        ELSE /\ status' = "maxed"
             /\ maxret' = IF acc.best = <<>> THEN <<"none">> ELSE <<"hit", acc.best[1], acc.best[2]>>
  /\ UNCHANGED <<seq, pssm, thr, bs, row, hits, yielded>>

Next == ScanBlock \/ Pop \/ Finish \/ MaxCall
vars == <<seq, pssm, thr, bs, row, hits, yielded, status, maxret>>
Spec == Init /\ [][Next]_vars

\* ---------------------------------------------------------------- refinement
Q == Qual(pssm, seq, thr, W)
Remaining == Q \ yielded
NoPanic     == status # "panic"
OnlyQual    == yielded \subseteq Q /\ \A q \in 1..Len(hits) : hits[q] \in Q \ yielded
NoDuplicate == \A p, q \in 1..Len(hits) : p # q => hits[p] # hits[q]
Complete    == status = "done" => yielded = Q
\* hits buffered but not yet returned are still "remaining" for max(): C03
MaxRefines  == status = "maxed" =>
                 IF maxret = <<"none">> THEN Remaining = {}
                 ELSE /\ maxret[2] \in Remaining
                      /\ maxret[3] = Real(maxret[2])
                      /\ \A i \in Remaining : Real(i) <= maxret[3]
=============================================================================
