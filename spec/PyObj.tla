-------------------------------- MODULE PyObj --------------------------------
(***************************************************************************)
(* C17 / C18 - the Python bindings (lightmotif-py).                        *)
(*                                                                         *)
(* D-layer operators specific to the Python object model; the values       *)
(* themselves are defined by Score, Reduce, Scanner, Pwm, Dist and Reader. *)
(*   GetItemOK   sequence protocol: indices -len..len-1 give the element,  *)
(*               anything else raises IndexError; never a panic            *)
(*   View facts  a memoryview has the format / itemsize / ndim / shape of  *)
(*               the logical object and tolist() shows exactly the logical *)
(*               elements (no padding, no foreign memory)                  *)
(*   Ordinary    failures are subclasses of Exception ("exc"); a pyo3      *)
(*               PanicException derives from BaseException only ("panic")  *)
(***************************************************************************)
EXTENDS Naturals, Integers, Sequences

\* probes: sequence of [i, k, v]; logical: the elements; all integer indices i in -n-2..n+1 are probed
GetItemOK(logical, probes) ==
  LET n == Len(logical) IN
  \A q \in 1..Len(probes) :
    LET p == probes[q] IN
    IF p.i >= -n /\ p.i < n
    THEN p.k = "ok" /\ p.v = logical[((p.i + n) % n) + 1]
    ELSE p.k = "IndexError"

NoPanic(probes) == \A q \in 1..Len(probes) : probes[q].k # "panic"

Transpose(m, rows, cols) == [j \in 1..cols |-> [i \in 1..rows |-> m[i][j]]]
=============================================================================
