-------------------------------- MODULE LmBase --------------------------------
(***************************************************************************)
(* D-layer base definitions shared by every module of the lightmotif       *)
(* specification: number encoding, alphabets, striped geometry, window     *)
(* score.                                                                  *)
(*                                                                         *)
(* Conventions (DESIGN.md section 4)                                       *)
(*  - symbols are ranks 0..K-1; the wildcard (N / X) is rank K-1, which is *)
(*    also the default symbol used as padding;                             *)
(*  - positions, rows and columns are 0-based as in the implementation;    *)
(*    TLA+ sequences are 1-based, hence the `+ 1` in every access;         *)
(*  - scores are integers in units of 2^-s (dyadic grid), negative         *)
(*    infinity is the absorbing sentinel NINF.                             *)
(***************************************************************************)
EXTENDS Naturals, Integers, Sequences, FiniteSets

NINF == -1073741824

Add(a, b) == IF a = NINF \/ b = NINF THEN NINF ELSE a + b

RECURSIVE SumTo(_, _)
\* sum of f[1..n] with absorbing NINF
SumTo(f, n) == IF n = 0 THEN 0 ELSE Add(SumTo(f, n - 1), f[n])

RECURSIVE PlainSum(_, _)
PlainSum(f, n) == IF n = 0 THEN 0 ELSE PlainSum(f, n - 1) + f[n]

Max2(a, b) == IF a >= b THEN a ELSE b
Min2(a, b) == IF a <= b THEN a ELSE b
SetMax(S) == CHOOSE x \in S : \A y \in S : y <= x
SetMin(S) == CHOOSE x \in S : \A y \in S : y >= x

RECURSIVE SeqMaxTo(_, _)
SeqMaxTo(f, n) == IF n = 1 THEN f[1] ELSE Max2(SeqMaxTo(f, n - 1), f[n])
RECURSIVE SeqMinTo(_, _)
SeqMinTo(f, n) == IF n = 1 THEN f[1] ELSE Min2(SeqMinTo(f, n - 1), f[n])

\* floor / ceiling division for a positive divisor and any integer dividend
FloorDiv(a, b) == IF a >= 0 THEN a \div b ELSE -((-a + b - 1) \div b)
CeilDiv(a, b)  == -FloorDiv(-a, b)

\* ------------------------------------------------------------ striped geometry
NRows(L, C) == (L + C - 1) \div C

\* symbol at linear position i (0-based); the wildcard W beyond the end
SymAt(seq, i, W) == IF i < Len(seq) THEN seq[i + 1] ELSE W

\* the striped matrix with `wrap` look-ahead rows: cell (r, c) holds the symbol at
\* linear position c*R + r.  For r < R this is the layout "symbol i at row i mod R,
\* column i div R, wildcard elsewhere"; for r >= R it is "look-ahead row k = row k
\* shifted left by one column, wildcard in the last column".
StripedCell(seq, C, r, c, W) == SymAt(seq, c * NRows(Len(seq), C) + r, W)
StripedData(seq, C, wrap, W) ==
  [r \in 1..(NRows(Len(seq), C) + wrap) |-> [c \in 1..C |-> StripedCell(seq, C, r - 1, c - 1, W)]]

\* ------------------------------------------------------------------ window score
NScores(L, M) == IF L < M THEN 0 ELSE L - M + 1

RECURSIVE WindowScoreFrom(_, _, _, _, _)
WindowScoreFrom(pssm, seq, i, W, j) ==
  IF j > Len(pssm) THEN 0
  ELSE Add(pssm[j][SymAt(seq, i + j - 1, W) + 1], WindowScoreFrom(pssm, seq, i, W, j + 1))

\* score of the window starting at (0-based) position i
WindowScore(pssm, seq, i, W) == WindowScoreFrom(pssm, seq, i, W, 1)

\* number of occurrences of each symbol
Counts(seq, K) == [k \in 1..K |-> Cardinality({i \in 1..Len(seq) : seq[i] = k - 1})]
=============================================================================
