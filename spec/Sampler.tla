------------------------------- MODULE Sampler -------------------------------
(***************************************************************************)
(* C16 - Gibbs sampler (lightmotif/src/sampler.rs).                        *)
(*                                                                         *)
(* A-layer.  The observable state of a sampling run over a fixed data set  *)
(* is the alignment: which sequences are active and where their width-w    *)
(* window starts.  Everything the sampler reports is a FUNCTION of it:     *)
(*   MotifOf    counts of the windows of the active sequences              *)
(*   BgCountsOf symbol counts of the active sequences outside their window *)
(*   IterCounts counts of the alignment without the held-out sequence,     *)
(*              taken before the step moves it                             *)
(* and one step changes at most the held-out sequence z: its start (kept   *)
(* inside the sequence) and, in zero-or-one mode, its membership.          *)
(* `active` and `starts` are parallel sequences (indices 0-based).         *)
(***************************************************************************)
EXTENDS LmBase

IdxOf(active, i) == CHOOSE q \in 1..Len(active) : active[q] = i
Has(active, i)   == \E q \in 1..Len(active) : active[q] = i
StartOf(active, starts, i) == starts[IdxOf(active, i)]

\* counts of the w-wide windows of the active sequences except `skip` (-1 = none)
MotifOf(data, w, K, active, starts, skip) ==
  [j \in 1..w |-> [k \in 1..K |->
     Cardinality({q \in 1..Len(active) : active[q] # skip /\ data[active[q] + 1][starts[q] + j] = k - 1})]]

BgCountsOf(data, w, K, active, starts) ==
  [k \in 1..K |->
     PlainSum([q \in 1..Len(active) |->
        Cardinality({p \in 1..Len(data[active[q] + 1]) :
                       data[active[q] + 1][p] = k - 1 /\ ~(p - 1 >= starts[q] /\ p - 1 < starts[q] + w)})], Len(active))]

\* The same function computed from per-sequence symbol counts (taken once per data set) minus the window contents:
\* what the trace specification evaluates, so that sequences of tens of thousands of symbols stay cheap.
SymCounts(seq, K) == [k \in 1..K |-> Cardinality({p \in 1..Len(seq) : seq[p] = k - 1})]
DataCounts(data, K) == [i \in 1..Len(data) |-> SymCounts(data[i], K)]
BgCountsFrom(cnt, data, w, K, active, starts) ==
  [k \in 1..K |->
     PlainSum([q \in 1..Len(active) |->
        cnt[active[q] + 1][k] - Cardinality({j \in 1..w : data[active[q] + 1][starts[q] + j] = k - 1})], Len(active))]

StartsInRange(data, w, active, starts) ==
  /\ Len(starts) = Len(active)
  /\ \A q \in 1..Len(active) : active[q] \in 0..(Len(data) - 1) /\ starts[q] >= 0 /\ starts[q] + w <= Len(data[active[q] + 1])
  /\ \A p, q \in 1..Len(active) : p < q => active[p] < active[q]

\* step relation between the alignment before (a0, s0) and after (a1, s1) a step holding out z
StepOK(mode, n, z, a0, s0, a1, s1) ==
  /\ z \in 0..(n - 1)
  /\ \A i \in 0..(n - 1) : i # z => (Has(a0, i) <=> Has(a1, i))
  /\ \A i \in 0..(n - 1) : (i # z /\ Has(a0, i)) => StartOf(a1, s1, i) = StartOf(a0, s0, i)
  /\ Has(a0, z) => Has(a1, z)
  /\ mode = "oops" => Len(a1) = n
=============================================================================
