--------------------------------- MODULE Dist ---------------------------------
(***************************************************************************)
(* C11 / C12 / C13 - score distributions (lightmotif/src/pwm/dist.rs,      *)
(* lightmotif-tfmpvalue/src/lib.rs).                                       *)
(*                                                                         *)
(* D-layer: the exact distribution of the score of a random word whose     *)
(* symbols are drawn independently from the background.  Scores are        *)
(* integers in units of 1/G (grid), the background is bn[k]/bd, so the     *)
(* probability of every score is an integer numerator over bd^M:           *)
(*   ConvDist(m, bn)      function score -> numerator, by convolution      *)
(*   EnumDist(m, bn)      the same by enumeration of all words (cross-check*)
(*                        in the bounded model)                            *)
(*   TailWhere(d, P(_))   sum of the numerators of the scores satisfying P *)
(* Comparisons "score >= x" for non-grid x are written by the caller in    *)
(* cross-multiplied integer form.                                          *)
(* I-layer (C11): the MEME-style table of dist.rs - offset, scale, rounded *)
(* integer matrix, pdf by convolution, right-to-left cumulative sums       *)
(* clipped at one, pvalue / score look-ups.                                *)
(***************************************************************************)
EXTENDS LmBase

\* ------------------------------------------------------------------ D-layer
NS(K) == K - 1      \* number of non-wildcard symbols

RowLo(row, K) == SeqMinTo([k \in 1..NS(K) |-> row[k]], NS(K))
RowHi(row, K) == SeqMaxTo([k \in 1..NS(K) |-> row[k]], NS(K))

RECURSIVE ConvTo(_, _, _, _)
\* distribution of the sum of rows 1..i : a function lo..hi -> numerator (denominator bd^i)
ConvTo(m, bn, K, i) ==
  IF i = 0 THEN [s \in 0..0 |-> 1]
  ELSE LET prev == ConvTo(m, bn, K, i - 1)
           lo == SetMin(DOMAIN prev) + RowLo(m[i], K)
           hi == SetMax(DOMAIN prev) + RowHi(m[i], K)
       IN [s \in lo..hi |->
             PlainSum([k \in 1..NS(K) |-> IF (s - m[i][k]) \in DOMAIN prev THEN prev[s - m[i][k]] * bn[k] ELSE 0], NS(K))]
ConvDist(m, bn, K) == ConvTo(m, bn, K, Len(m))

RECURSIVE SumOver(_, _)
SumOver(d, S) == IF S = {} THEN 0 ELSE LET x == CHOOSE x \in S : TRUE IN d[x] + SumOver(d, S \ {x})

\* sum of d over a..b by index, by halving (recursion depth log2(b - a))
RECURSIVE SumRange(_, _, _)
SumRange(d, a, b) == IF a > b THEN 0 ELSE IF a = b THEN d[a]
                     ELSE LET mid == (a + b) \div 2 IN SumRange(d, a, mid) + SumRange(d, mid + 1, b)

\* smallest x in a..b satisfying the monotone (upward closed) predicate P; b + 1 if none (binary search)
RECURSIVE FirstFrom(_, _, _)
FirstFrom(P(_), a, b) == IF a > b THEN a
                         ELSE LET mid == (a + b) \div 2 IN
                              IF P(mid) THEN FirstFrom(P, a, mid - 1) ELSE FirstFrom(P, mid + 1, b)

\* P(S satisfies P) numerator for an upward-closed predicate P over integer scores
TailWhere(d, P(_)) ==
  LET lo == SetMin(DOMAIN d)  hi == SetMax(DOMAIN d) IN SumRange(d, FirstFrom(P, lo, hi), hi)

\* ---- saturating variant, for backgrounds whose denominators bd^M leave the 32-bit integers of TLC --------------------
\* Numerators are capped at `cap` (4 * cap must fit in 32 bits; products are formed only when they stay below it): sums and tails are exact below the
\* cap and equal to the cap otherwise, so every comparison "tail <= n" / "tail >= n" with n < cap is still decided
\* exactly.  Used for the extreme upper tail (p of the order of 1e-17), where the numerators are small integers.
CapAt(a, cap) == IF a > cap THEN cap ELSE a
SatMul(a, b, cap) == IF a = 0 \/ b = 0 THEN 0 ELSE IF b > cap \div a THEN cap ELSE CapAt(a * b, cap)   \* never forms a product above cap
RECURSIVE SatSumTo(_, _, _)
SatSumTo(f, n, cap) == IF n = 0 THEN 0 ELSE CapAt(SatSumTo(f, n - 1, cap) + f[n], cap)
RECURSIVE ConvToSat(_, _, _, _, _)
ConvToSat(m, bn, K, i, cap) ==
  IF i = 0 THEN [s \in 0..0 |-> 1]
  ELSE LET prev == ConvToSat(m, bn, K, i - 1, cap)
           lo == SetMin(DOMAIN prev) + RowLo(m[i], K)
           hi == SetMax(DOMAIN prev) + RowHi(m[i], K)
       IN [s \in lo..hi |->
             SatSumTo([k \in 1..NS(K) |-> IF (s - m[i][k]) \in DOMAIN prev THEN SatMul(prev[s - m[i][k]], bn[k], cap) ELSE 0], NS(K), cap)]
ConvDistSat(m, bn, K, cap) == ConvToSat(m, bn, K, Len(m), cap)
RECURSIVE SumRangeSat(_, _, _, _)
SumRangeSat(d, a, b, cap) == IF a > b THEN 0 ELSE IF a = b THEN d[a]
                             ELSE LET mid == (a + b) \div 2 IN CapAt(SumRangeSat(d, a, mid, cap) + SumRangeSat(d, mid + 1, b, cap), cap)
TailWhereSat(d, P(_), cap) ==
  LET lo == SetMin(DOMAIN d)  hi == SetMax(DOMAIN d) IN SumRangeSat(d, FirstFrom(P, lo, hi), hi, cap)

Pow(b, e) == IF e = 0 THEN 1 ELSE IF e = 1 THEN b ELSE IF e = 2 THEN b * b ELSE IF e = 3 THEN b * b * b
             ELSE IF e = 4 THEN b * b * b * b ELSE IF e = 5 THEN b * b * b * b * b
             ELSE IF e = 6 THEN b * b * b * b * b * b ELSE IF e = 7 THEN b * b * b * b * b * b * b
             ELSE IF e = 8 THEN b * b * b * b * b * b * b * b ELSE b * b * b * b * b * b * b * b * b

\* attainable scores
Attainable(d) == {s \in DOMAIN d : d[s] > 0}

\* enumeration of all words (bounded model only)
WordProb(w, bn) == LET f[i \in 0..Len(w)] == IF i = 0 THEN 1 ELSE f[i - 1] * bn[w[i] + 1] IN f[Len(w)]
WordScore(m, w) == PlainSum([i \in 1..Len(m) |-> m[i][w[i] + 1]], Len(m))

\* ------------------------------------------------------------------ I-layer: dist.rs
\* round half away from zero of a / b (b > 0), like f64::round
RoundDiv(a, b) == IF a >= 0 THEN (2 * a + b) \div (2 * b) ELSE -((2 * (-a) + b) \div (2 * b))

\* m has cells in units of 1/G.  offset = floor(small), scale = floor(1000 / (large - offset))
MemeSmall(m, K) == SetMin({m[i][k] : i \in 1..Len(m), k \in 1..NS(K)})
MemeLarge(m, K) == SetMax({m[i][k] : i \in 1..Len(m), k \in 1..NS(K)})
MemeOffset(m, K, G) == LET s == IF MemeSmall(m, K) = MemeLarge(m, K) THEN MemeLarge(m, K) - G ELSE MemeSmall(m, K)
                       IN FloorDiv(s, G)                                   \* integer (score units)
MemeScale(m, K, G) == (1000 * G) \div (MemeLarge(m, K) - G * MemeOffset(m, K, G))
MemeData(m, K, G) == [i \in 1..Len(m) |-> [k \in 1..NS(K) |-> RoundDiv((m[i][k] - G * MemeOffset(m, K, G)) * MemeScale(m, K, G), G)]]
\* index of a score x/G in the table
MemeIndex(m, K, G, x) == RoundDiv((x - Len(m) * G * MemeOffset(m, K, G)) * MemeScale(m, K, G), G)
=============================================================================
