-------------------------------- MODULE Reader --------------------------------
(***************************************************************************)
(* C14 / C15 - motif file readers (lightmotif-io: jaspar, jaspar16,        *)
(* transfac, uniprobe).                                                    *)
(*                                                                         *)
(* A-layer for well-formed files (C14).  A file is the canonical rendering *)
(* of a list of abstract motifs                                            *)
(*     [id, acc, name, desc, order, vals]                                  *)
(* where order[j] is the symbol (rank) named by the j-th matrix line /     *)
(* column and vals[j][p] the entry written for it at position p (kept as   *)
(* text so that counts up to 2^32-1 and decimal fractions compare          *)
(* exactly).  The reader is a queue of motifs still to be returned; the    *)
(* chunking of the byte stream is not part of the abstract state: the      *)
(* result must not depend on it.                                           *)
(*   NextRecord(r)  r is exactly the head of the queue: fields as written, *)
(*                  every entry in the row of its position and the column  *)
(*                  of its symbol, every other column zero                 *)
(*   NextNone       only when the queue is empty                           *)
(* Totality for arbitrary input (C15): construction and every request end  *)
(* in record | error | none - panic and hang are not actions - and a       *)
(* consumer stopping at the first error / none terminates (the number of   *)
(* records cannot exceed the number of bytes).                             *)
(***************************************************************************)
EXTENDS Naturals, Sequences

\* expected matrix of a motif: rows = positions, K columns (as text); `zero` = text of an absent entry
ExpectedMatrix(mo, K, zero) ==
  [p \in 1..Len(mo.vals[1]) |->
     [k \in 1..K |-> IF \E j \in 1..Len(mo.order) : mo.order[j] = k - 1
                     THEN mo.vals[CHOOSE j \in 1..Len(mo.order) : mo.order[j] = k - 1][p]
                     ELSE zero]]

\* which metadata a format carries
HasDesc(fmt) == fmt \in {"jaspar", "jaspar16", "transfac"}
HasAccName(fmt) == fmt = "transfac"

RecordOK(fmt, mo, r, K) ==
  /\ r.id = mo.id
  /\ r.m = ExpectedMatrix(mo, K, "0")
  /\ HasDesc(fmt) => r.desc = mo.desc
  /\ HasAccName(fmt) => r.acc = mo.acc /\ r.name = mo.name

\* Beyond C14 (advisory): the literature references of a TRANSFAC entry (RN / RX / RA / RT / RL blocks) come back in
\* file order as <<number, <<xref>>, <<pubmed id>>, <<title>>, <<link>>>> (absent parts are empty sequences); every other
\* metadata line the format allows (DT, CO, BF, BS, BA, CC) leaves the record's listed fields and matrix unchanged.
RefsOK(mo, r) == ("refs" \in DOMAIN mo /\ "refs" \in DOMAIN r) => r.refs = mo.refs

ReaderInit(motifs) == [todo |-> motifs, live |-> TRUE]

\* C15: outcome sequences of reader construction followed by requests until the first non-record
TotalOK(outcomes, len) ==
  /\ Len(outcomes) >= 1
  /\ \A i \in 1..Len(outcomes) : outcomes[i] \in {"record", "error", "none"}
  /\ \A i \in 1..(Len(outcomes) - 1) : outcomes[i] = "record"
  /\ outcomes[Len(outcomes)] \in {"error", "none"}
  /\ Len(outcomes) - 1 <= len
=============================================================================
