--------------------------------- MODULE Tfm ---------------------------------
(***************************************************************************)
(* C12 - I-layer model of the TFM-PVALUE p-value computation               *)
(* (lightmotif-tfmpvalue/src/lib.rs: TfmPvalue::{new, recompute,           *)
(* distribution, lookup_pvalue}) in exact integer arithmetic.              *)
(*                                                                         *)
(* Units: matrix cells m[i][j] in 1/G (G = 4 or 16); granularity g = 1/GI; *)
(* query scores in 1/(2G); rounding errors in 1/G of an integer step;      *)
(* probabilities as numerators over bd^M (every level of the forward       *)
(* propagation is kept scaled to bd^M).                                    *)
(*                                                                         *)
(*   Perm        rows by decreasing score range (ties: any order)          *)
(*   IntM        floor(m / g) per cell, in permuted order                  *)
(*   ErrMax      sum over rows 2..M of the largest rounding error          *)
(*   Offs        per-row offset making every integer cell >= 0             *)
(*   Levels      distribution(min, max): forward propagation with the      *)
(*               reachability cut (sc + maxs >= min) and the overflow      *)
(*               bucket max + 1 of the last level                          *)
(*   LookupPv    lookup_pvalue: cumulative sums from the top, s, kmax      *)
(* SeedFromRow0 = TRUE models the original code, which seeded the running  *)
(* sum with qvalues[0][max + 1] (negative control of MC_Tfm).              *)
(***************************************************************************)
EXTENDS Dist

RowRange(row, K) == RowHi(row, K) - RowLo(row, K)

\* permutations of 1..M sorted by decreasing range
IsSortedPerm(m, K, p) ==
  /\ \A i, j \in 1..Len(m) : i # j => p[i] # p[j]
  /\ \A i \in 1..(Len(m) - 1) : RowRange(m[p[i]], K) >= RowRange(m[p[i + 1]], K)
Perms(m, K) == {p \in [1..Len(m) -> 1..Len(m)] : IsSortedPerm(m, K, p)}

IntRaw(m, p, K, GI, G) == [i \in 1..Len(m) |-> [j \in 1..NS(K) |-> FloorDiv(m[p[i]][j] * GI, G)]]
\* largest rounding error of row i, in units of 1/G of an integer step
ErrRow(m, p, K, GI, G, i) == SetMax({m[p[i]][j] * GI - G * FloorDiv(m[p[i]][j] * GI, G) : j \in 1..NS(K)})
ErrMaxG(m, p, K, GI, G) == PlainSum([i \in 1..Len(m) |-> IF i = 1 THEN 0 ELSE ErrRow(m, p, K, GI, G, i)], Len(m))
Offs(im, K) == [i \in 1..Len(im) |-> -RowLo(im[i], K)]
IntM(im, K) == [i \in 1..Len(im) |-> [j \in 1..NS(K) |-> im[i][j] + Offs(im, K)[i]]]

RECURSIVE SuffixMax(_, _, _)
SuffixMax(im, K, i) == IF i > Len(im) THEN 0 ELSE RowHi(im[i], K) + SuffixMax(im, K, i + 1)

\* a level = [val |-> function key -> numerator, pres |-> set of keys present in the map]
EmptyLevel(lo, hi) == [val |-> [k \in lo..hi |-> 0], pres |-> {}]
AddTo(lv, key, x) == [val |-> [lv.val EXCEPT ![key] = @ + x], pres |-> lv.pres \cup {key}]

RECURSIVE AddAll(_, _, _)
\* fold a sequence of <<key, amount>> into a level
AddAll(lv, items, q) == IF q > Len(items) THEN lv ELSE AddAll(AddTo(lv, items[q][1], items[q][2]), items, q + 1)

\* all <<key, k>> pairs of a level as a sequence (order irrelevant: only sums are formed)
RECURSIVE SortedSeq(_)
SortedSeq(S) == IF S = {} THEN <<>> ELSE LET x == SetMin(S) IN <<x>> \o SortedSeq(S \ {x})

RECURSIVE SetToSeq(_)
SetToSeq(S) == IF S = {} THEN <<>> ELSE LET x == CHOOSE x \in S : TRUE IN <<x>> \o SetToSeq(S \ {x})

\* A prefix whose score already exceeds mx is credited to the bucket mx + 1 with its own probability times the
\* probability that the rest of the word consists of regular symbols (RegN / bd per position; a word holding a wildcard
\* has no score in the integer matrix).  As originally coded the suffix was credited with probability one, which is the
\* same thing unless the background gives the wildcard a frequency; BucketAsCoded = TRUE (substituted in the
\* configuration of the negative control) restores that.
BucketAsCoded == FALSE
RegN(bn, K) == PlainSum([k \in 1..NS(K) |-> bn[k]], NS(K))

\* distribution(mn, mx): returns [last |-> level M, first |-> level 1]
Distribution(im, bn, bd, K, mn, mx) ==
  LET M == Len(im)
      suffix(x, pos) == IF BucketAsCoded THEN x ELSE (x * Pow(RegN(bn, K), M - pos)) \div Pow(bd, M - pos)
      lo == Min2(0, mx + 1)
      hi == Max2(mx + 1, SuffixMax(im, K, 1))
      scale1 == Pow(bd, M - 1)
      lvl1 == AddAll(EmptyLevel(lo, hi),
                     SetToSeq({<<im[1][k], k>> : k \in {j \in 1..NS(K) : im[1][j] + SuffixMax(im, K, 2) >= mn}}), 1)
      \* SetToSeq yields <<key, k>>; turn k into the mass bn[k] * bd^(M-1)
      first == AddAll(EmptyLevel(lo, hi),
                      [q \in 1..Len(SetToSeq({<<im[1][k], k>> : k \in {j \in 1..NS(K) : im[1][j] + SuffixMax(im, K, 2) >= mn}})) |->
                         LET it == SetToSeq({<<im[1][k], k>> : k \in {j \in 1..NS(K) : im[1][j] + SuffixMax(im, K, 2) >= mn}})[q]
                         IN <<it[1], bn[it[2]] * scale1>>], 1)
      \* one propagation step from level (pos - 1) to level pos; returns [next, bucket]
      Step(prev, pos) ==
        LET cand == {<<key, k>> \in prev.pres \X (1..NS(K)) : key + im[pos][k] + SuffixMax(im, K, pos + 1) >= mn}
            reg  == {c \in cand : c[1] + im[pos][c[2]] <= mx}
            ovf  == cand \ reg
            regs == SetToSeq(reg)
        IN [next |-> AddAll(EmptyLevel(lo, hi), [q \in 1..Len(regs) |->
                               <<regs[q][1] + im[pos][regs[q][2]], (prev.val[regs[q][1]] * bn[regs[q][2]]) \div bd>>], 1),
            bucket |-> LET os == SetToSeq(ovf) IN
                       PlainSum([q \in 1..Len(os) |-> suffix((prev.val[os[q][1]] * bn[os[q][2]]) \div bd, pos)], Len(os))]
      Run[pos \in 1..M] == IF pos = 1 THEN [lv |-> first, bucket |-> 0]
                           ELSE LET st == Step(Run[pos - 1].lv, pos) IN [lv |-> st.next, bucket |-> Run[pos - 1].bucket + st.bucket]
      \* the overflow bucket max + 1 is inserted (with 0.0) into the last level before the propagation
      last == AddTo(Run[M].lv, mx + 1, Run[M].bucket)
  IN [first |-> first, last |-> last]

\* lookup_pvalue for the query s8 / (2 G) at granularity 1 / GI (matrix cells in 1/G): returns <<pmin, pmax>>
\* (numerators over bd^M)
LookupPv(m, p, bn, bd, K, GI, G, s8, SeedFromRow0) ==
  LET raw == IntRaw(m, p, K, GI, G)
      U   == 2 * G
      im  == IntM(raw, K)
      M   == Len(m)
      e4  == ErrMaxG(m, p, K, GI, G)
      offS == PlainSum(Offs(raw, K), M)
      sc8 == s8 * GI + U * offS                       \* scaled * U
      avg == FloorDiv(sc8, U)
      mx  == FloorDiv(sc8 + 2 * e4 + U, U)
      mn  == FloorDiv(sc8 - 2 * e4 - U, U)
      d   == Distribution(im, bn, bd, K, mn, mx)
      keys == d.last.pres
      seed == IF SeedFromRow0 /\ (mx + 1) \in d.first.pres THEN d.first.val[mx + 1] ELSE 0
      \* cumulative sums from the largest key down
      Cum(l) == seed + PlainSum([q \in 1..Len(SetToSeq({x \in keys : x >= l})) |-> d.last.val[SetToSeq({x \in keys : x >= l})[q]]],
                                Len(SetToSeq({x \in keys : x >= l})))
      \* s = smallest key >= avg (keys are visited in decreasing order, the last one >= avg wins), else max + 1
      s == IF {x \in keys : x >= avg} = {} THEN mx + 1 ELSE SetMin({x \in keys : x >= avg})
      \* kmax: walk down from s while the key is within error_max of s (and not the first key)
      below == {x \in keys : x < s /\ G * x < G * s - e4}
      kmaxKey == IF {x \in keys : x < s} = {} THEN s
                 ELSE IF below = {} THEN SetMin(keys) ELSE SetMax(below)
  IN <<Cum(s), Cum(kmaxKey)>>

\* ---------------------------------------------------------------- C13: lookup_score and the refinement iterator
\* One refinement step of approximate_score at granularity 1/GI over the integer window mn..mx, for the target
\* p = pn / (pc * bd^M).  Returns [alpha, conv, panic, e, offS]: the integer threshold, whether the reported range is a
\* point, whether keys[riter + 1] would be indexed out of bounds, the error bound (1/G units) and the offset sum.
LookupScore(m, p, bn, bd, K, GI, G, pn, pc, mn, mx) ==
  LET raw == IntRaw(m, p, K, GI, G)
      im  == IntM(raw, K)
      M   == Len(m)
      e   == ErrMaxG(m, p, K, GI, G)
      offS == PlainSum(Offs(raw, K), M)
      d   == Distribution(im, bn, bd, K, mn, mx)
      keys == d.last.pres
      ks  == SortedSeq(keys)                                   \* ascending
      n   == Len(ks)
      val(q) == d.last.val[ks[q]]
      \* cumulative sum of the keys with index >= q (1-based), i.e. what `sum` is after processing index q
      Cum(q) == PlainSum([j \in 1..(n - q + 1) |-> val(q + j - 1)], n - q + 1)
      ge(x) == x * pc >= pn                                    \* x / bd^M >= p
      gt(x) == x * pc > pn
      \* riter (1-based index): the largest index >= 2 whose cumulative sum reaches p, else 1 (the loop never processes index 1)
      hit == {q \in 2..n : ge(Cum(q))}
      riter == IF hit = {} THEN 1 ELSE SetMax(hit)
      sum == IF n <= 1 THEN 0 ELSE Cum(IF hit = {} THEN 2 ELSE riter)
      over == hit # {} /\ gt(sum)
      panic == over /\ riter = n                               \* keys[riter + 1] out of bounds
      alpha  == IF over THEN (IF riter < n THEN ks[riter + 1] ELSE ks[n]) ELSE ks[riter]
      alphaE == IF over THEN ks[riter] ELSE IF riter = 1 THEN ks[1] ELSE ks[riter - 1]
      \* reported range is a point iff the two keys are further apart than error_max, or the two p-values coincide
      pvA == IF over THEN (IF riter < n THEN Cum(riter + 1) ELSE 0) ELSE (IF riter = 1 THEN sum ELSE Cum(riter))
      pvE == IF over THEN Cum(riter) ELSE sum
      conv == (G * (alpha - alphaE) > e) \/ pvA = pvE
  IN [alpha |-> alpha, conv |-> conv, panic |-> panic \/ n = 0, e |-> e, offS |-> offS]

\* ceil(error_max + 0.5) with error_max = e / G
Margin(e, G) == CeilDiv(2 * e + G, 2 * G)
=============================================================================
