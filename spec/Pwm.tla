--------------------------------- MODULE Pwm ---------------------------------
(***************************************************************************)
(* C09 / C10 - count -> frequency -> weight -> log-odds conversions and    *)
(* reverse complement (lightmotif/src/pwm/mod.rs, abc.rs).                 *)
(*                                                                         *)
(* D-layer in exact arithmetic.  Rationals are pairs <<num, den>>, den > 0 *)
(* and are only ever compared by cross-multiplication.  Values computed by *)
(* the implementation in f32 are logged quantised (round(x * Q)) and       *)
(* checked with QNear (|q/Q - n/d| <= tol/Q), never for equality, except   *)
(* where the result is exact by construction (counts, zeros, -inf, powers  *)
(* of two).  Logarithms use a 10-fractional-bit fixed-point log2 (Lg),     *)
(* exact on powers of two and within 2 units elsewhere.                    *)
(***************************************************************************)
EXTENDS LmBase

Abs(x) == IF x < 0 THEN -x ELSE x

\* |q/Q - n/d| <= tol/Q   (all integers, d > 0)
QNear(q, n, d, Q, tol) == Abs(q * d - n * Q) <= tol * d

\* ---------------------------------------------------------------- counts
\* seqs: sequence of equal-length symbol sequences
CountsOf(seqs, M, K) ==
  [i \in 1..M |-> [k \in 1..K |-> Cardinality({s \in 1..Len(seqs) : seqs[s][i] = k - 1})]]
EqualLengths(seqs) == \A a, b \in 1..Len(seqs) : Len(seqs[a]) = Len(seqs[b])

\* ---------------------------------------------------------------- frequencies
\* pseudocounts pn[k] / pd ; frequency of symbol k in row c = (c[k]*pd + pn[k]) / sum_j (c[j]*pd + pn[j])
FreqNum(c, pn, pd, k) == c[k] * pd + pn[k]
FreqDen(c, pn, pd, K) == PlainSum([k \in 1..K |-> FreqNum(c, pn, pd, k)], K)

\* ---------------------------------------------------------------- weights (odds ratios)
\* background bn[k] / bd ; weight = freq / background, 0 where the background is 0
\* returns <<num, den>> (den > 0) - or <<0, 1>>
WeightRat(fnum, fden, bn, bd, k) == IF bn[k] = 0 THEN <<0, 1>> ELSE <<fnum * bd, fden * bn[k]>>

\* ---------------------------------------------------------------- fixed-point log2
RECURSIVE ILog2(_)
ILog2(x) == IF x < 2 THEN 0 ELSE 1 + ILog2(x \div 2)
Pow2(n) == IF n = 0 THEN 1 ELSE IF n = 1 THEN 2 ELSE IF n = 2 THEN 4 ELSE IF n = 3 THEN 8 ELSE IF n = 4 THEN 16
      ELSE IF n = 5 THEN 32 ELSE IF n = 6 THEN 64 ELSE IF n = 7 THEN 128 ELSE IF n = 8 THEN 256 ELSE IF n = 9 THEN 512
      ELSE IF n = 10 THEN 1024 ELSE IF n = 11 THEN 2048 ELSE IF n = 12 THEN 4096 ELSE IF n = 13 THEN 8192 ELSE 16384
RECURSIVE LgFrac(_, _, _)
\* m in [2^14, 2^15): mantissa; returns the next `bits` fractional bits of log2(m / 2^14) as an integer
LgFrac(m, bits, acc) ==
  IF bits = 0 THEN acc
  ELSE LET sq == (m * m) \div 16384 IN
       IF sq >= 32768 THEN LgFrac(sq \div 2, bits - 1, 2 * acc + 1) ELSE LgFrac(sq, bits - 1, 2 * acc)
\* Lg(x) ~ 1024 * log2(x) for integer 1 <= x < 2^15
Lg(x) == LET e == ILog2(x) IN e * 1024 + LgFrac(x * Pow2(14 - e), 10, 0)
\* 1024 * log2(n/d) ; NINF for n = 0
Log2Fx(n, d) == IF n = 0 THEN NINF ELSE Lg(n) - Lg(d)
\* 1024 * log_base(n/d) with base = basen/based
LogBaseFx(n, d, basen, based) ==
  IF n = 0 THEN NINF ELSE ((Lg(n) - Lg(d)) * 1024) \div (Lg(basen) - Lg(based))

\* reduce a rational so that both parts stay below 2^15 (Lg's domain); exact when already small
RECURSIVE Shrink(_, _)
Shrink(n, d) == IF n < 32768 /\ d < 32768 THEN <<n, d>> ELSE Shrink((n + 1) \div 2, (d + 1) \div 2)

\* ---------------------------------------------------------------- min / max score
MinScoreOf(q, K) == PlainSum([i \in 1..Len(q) |-> SeqMinTo([k \in 1..(K - 1) |-> q[i][k]], K - 1)], Len(q))
MaxScoreOf(q, K) == PlainSum([i \in 1..Len(q) |-> SeqMaxTo([k \in 1..(K - 1) |-> q[i][k]], K - 1)], Len(q))

\* ---------------------------------------------------------------- validity
\* background frequencies fn[k] / fd (may be negative or above fd)
BgValid(fn, fd, K) == (\A k \in 1..K : fn[k] >= 0 /\ fn[k] <= fd) /\ PlainSum(fn, K) = fd
\* a frequency row is clearly invalid when its sum is off by at least 5% (tolerance of the library: 1%)
RowClearlyInvalid(rn, rd, K) == Abs(PlainSum(rn, K) - rd) * 20 >= rd

\* ---------------------------------------------------------------- reverse complement (DNA: A C T G N)
Comp(s) == CASE s = 0 -> 2 [] s = 2 -> 0 [] s = 1 -> 3 [] s = 3 -> 1 [] OTHER -> s
RC(m) == [i \in 1..Len(m) |-> [k \in 1..5 |-> m[Len(m) + 1 - i][Comp(k - 1) + 1]]]
RCSeq(s) == [i \in 1..Len(s) |-> Comp(s[Len(s) + 1 - i])]
=============================================================================
