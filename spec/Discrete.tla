------------------------------- MODULE Discrete -------------------------------
(***************************************************************************)
(* C08 - 8-bit discretised scores (pwm/mod.rs ScoringMatrix::to_discrete,  *)
(* DiscreteMatrix::{scale, unscale, score_position}; u8 kernels in         *)
(* pli/mod.rs (generic) and platform/avx2.rs (saturating shuffle kernel)). *)
(*                                                                         *)
(* All quantities are integers in grid units (2^-s); `range` = sum of row  *)
(* maxima - sum of row minima over the non-wildcard symbols.               *)
(* D-layer                                                                 *)
(*   Offsets / Range           per-row minimum, total range                *)
(*   DiscExact(p, o)           ceil((p - o) * 255 / range), clamped 0..255 *)
(*   ScaleExact(x)             floor((x - offset) * 255 / range), clamped  *)
(*   SatSum(cells)             saturating 8-bit sum                        *)
(*   NoUnderestimate           SatSum over a window of a matrix whose      *)
(*                             cells are >= DiscExact is >= ScaleExact of  *)
(*                             the window's real score                     *)
(* I-layer: kernels as coded: saturating (AVX2) vs plain `+=` (generic,    *)
(* DiscreteMatrix::score_position), the latter overflowing above 255.      *)
(***************************************************************************)
EXTENDS LmBase

Clamp8(x) == IF x < 0 THEN 0 ELSE IF x > 255 THEN 255 ELSE x

RowMin(row, K) == SeqMinTo([k \in 1..(K - 1) |-> row[k]], K - 1)
RowMax(row, K) == SeqMaxTo([k \in 1..(K - 1) |-> row[k]], K - 1)
Offsets(pssm, K) == [i \in 1..Len(pssm) |-> RowMin(pssm[i], K)]
OffsetSum(pssm, K) == PlainSum(Offsets(pssm, K), Len(pssm))
MaxSum(pssm, K) == PlainSum([i \in 1..Len(pssm) |-> RowMax(pssm[i], K)], Len(pssm))
Range(pssm, K) == MaxSum(pssm, K) - OffsetSum(pssm, K)

\* exact discretisation of cell value p in row with offset o (range > 0); -inf maps to 0
DiscExact(p, o, range) == IF p = NINF THEN 0 ELSE Clamp8(CeilDiv((p - o) * 255, range))
ScaleExact(x, offset, range) == IF x = NINF THEN 0 ELSE Clamp8(FloorDiv((x - offset) * 255, range))

RECURSIVE SatSumTo(_, _)
SatSumTo(f, n) == IF n = 0 THEN 0 ELSE Min2(255, SatSumTo(f, n - 1) + f[n])

\* the window of discretised cells at position i of seq
WindowCells(d, seq, i, W) == [j \in 1..Len(d) |-> d[j][SymAt(seq, i + j - 1, W) + 1]]
SatScore(d, seq, i, W)   == SatSumTo(WindowCells(d, seq, i, W), Len(d))
PlainScore(d, seq, i, W) == PlainSum(WindowCells(d, seq, i, W), Len(d))

\* position i (0-based) of the striped table `cells` with R rows
CellAt(cells, R, i) == cells[(i % R) + 1][(i \div R) + 1]
=============================================================================
