------------------------------- MODULE Scanner -------------------------------
(***************************************************************************)
(* C02 / C03 - the block scanner (lightmotif/src/scan.rs).                 *)
(*                                                                         *)
(* A-layer.  Inputs: sequence, scoring matrix, threshold (block size and   *)
(* dispatcher arm are deliberately NOT inputs of the abstract machine: the *)
(* result must not depend on them).  State: the set `remaining` of         *)
(* qualifying positions not yet returned.                                  *)
(*   Qual        positions 0..L-M whose window score is >= threshold       *)
(*   NextHit(h)  returns some position of `remaining` with its exact score *)
(*               and removes it (order free)                               *)
(*   NextNone    only when `remaining` is empty                            *)
(*   MaxHit(h)   a position of `remaining` whose score is the maximum over *)
(*               `remaining`;  MaxNone only when `remaining` is empty      *)
(* A panic or a hang is not an action: for every L >= 0, every block size  *)
(* >= 1 and every threshold the only outcomes are the ones above.          *)
(***************************************************************************)
EXTENDS LmBase

ScoreOf(pssm, seq, i, W) == WindowScore(pssm, seq, i, W)

Qual(pssm, seq, thr, W) ==
  {i \in 0..(NScores(Len(seq), Len(pssm)) - 1) : ScoreOf(pssm, seq, i, W) >= thr}

\* scores of all positions, computed once per scanner
AllScores(pssm, seq, W) == [i \in 1..NScores(Len(seq), Len(pssm)) |-> ScoreOf(pssm, seq, i - 1, W)]

ScanInit(pssm, seq, thr, W) ==
  LET sc == AllScores(pssm, seq, W) IN
  [scores |-> sc, remaining |-> {i \in 0..(Len(sc) - 1) : sc[i + 1] >= thr}, live |-> TRUE, overflow |-> FALSE, thr |-> thr]

\* Raising the threshold of a live scanner (Scanner::threshold is a plain setter and can be called between next() calls):
\* the best hit asked for afterwards must respect the threshold then in force, so the positions still to be reported
\* shrink to those at or above it.  (Lowering it mid-way is left unspecified: blocks already passed are not revisited; so
\* is next() after a raise, which still hands out the hits it had buffered.)
RaiseOK(s, t) == s.live /\ t >= s.thr
RaiseStep(s, t) == [s EXCEPT !.thr = t, !.remaining = {i \in s.remaining : s.scores[i + 1] >= t}]

\* outcome o = [ret |-> "hit"|"none"|..., pos, score]
NextOK(s, o) ==
  /\ s.live
  /\ IF o.ret = "hit" THEN o.pos \in s.remaining /\ o.score = s.scores[o.pos + 1]
     ELSE o.ret = "none" /\ s.remaining = {}
NextStep(s, o) == IF o.ret = "hit" THEN [s EXCEPT !.remaining = s.remaining \ {o.pos}] ELSE s

MaxOK(s, o) ==
  /\ s.live
  /\ IF o.ret = "hit"
     THEN /\ o.pos \in s.remaining
          /\ o.score = s.scores[o.pos + 1]
          /\ \A i \in s.remaining : s.scores[i + 1] <= o.score
     ELSE o.ret = "none" /\ s.remaining = {}
MaxStep(s, o) == [s EXCEPT !.live = FALSE]      \* max() consumes the scanner
=============================================================================
