---------------------------- MODULE DiscreteStep ----------------------------
(***************************************************************************)
(* The inductive step behind C08 for motifs of ANY width (MC_Discrete      *)
(* enumerates widths up to 3 only), proved with TLAPS.                     *)
(* Scores are rationals n / d over a common denominator d > 0 (already     *)
(* shifted by the row offsets and multiplied by the scale factor, so every *)
(* term is >= 0); a byte cell is Ceil(n, d), the kernel adds cells with    *)
(* saturation at 255, and the byte image of a real score S is at most      *)
(* Ceil(S, d) (scale() rounds DOWN).  If the accumulator dominates the     *)
(* capped ceiling of the partial sum, it still does after one more row:    *)
(*   acc >= Cap(Ceil(S, d))  =>  Sat(acc + Ceil(a, d)) >= Cap(Ceil(S + a, d)) *)
(* With acc = 0 = Cap(Ceil(0, d)) for the empty prefix, induction over the *)
(* rows gives: the 8-bit score of a window never under-estimates the byte  *)
(* image of its real score, hence no position at or above a threshold is   *)
(* lost by the byte pre-filter (NoUnderestimate, NoLostHit of Discrete.tla)*)
(* - provided the additions saturate, which is exactly what the generic    *)
(* kernel of the known finding C08-generic-u8-kernel-not-saturating lacks. *)
(***************************************************************************)
EXTENDS Integers, TLAPS

Ceil(n, d) == -((-n) \div d)
Cap(x)     == IF x > 255 THEN 255 ELSE x
Sat(x)     == IF x > 255 THEN 255 ELSE x

LEMMA DivMod ==
  ASSUME NEW d \in Nat \ {0}, NEW n \in Int
  PROVE  /\ n = (n \div d) * d + (n % d)
         /\ (n % d) \in 0..(d - 1)
         /\ (n \div d) \in Int
  BY Z3

LEMMA MulMono ==
  ASSUME NEW a \in Int, NEW d \in Nat \ {0}, a >= 1
  PROVE  a * d >= d
  BY Z3

LEMMA Distrib ==
  ASSUME NEW a \in Int, NEW b \in Int, NEW d \in Int
  PROVE  (a - b) * d = a * d - b * d
  BY Z3

\* Ceil is the least integer whose multiple by d reaches n
LEMMA CeilSpec ==
  ASSUME NEW d \in Nat \ {0}, NEW n \in Int
  PROVE  /\ Ceil(n, d) \in Int
         /\ Ceil(n, d) * d >= n
         /\ (Ceil(n, d) - 1) * d < n
<1> DEFINE q == (-n) \div d
<1> DEFINE m == (-n) % d
<1>0. -n \in Int  BY Z3
<1>1. -n = q * d + m /\ m \in 0..(d - 1) /\ q \in Int  BY <1>0, DivMod
<1>2. Ceil(n, d) = -q  BY DEF Ceil
<1>3. (-q) * d = -(q * d)  BY <1>1, Z3
<1>4. (-q - 1) * d = (-q) * d - 1 * d  BY <1>1, Distrib, Z3
<1> QED BY <1>1, <1>2, <1>3, <1>4, Z3

\* any integer c with c d >= n is at least Ceil(n, d)
LEMMA CeilLeast ==
  ASSUME NEW d \in Nat \ {0}, NEW n \in Int, NEW c \in Int, c * d >= n
  PROVE  c >= Ceil(n, d)
<1> DEFINE k == Ceil(n, d)
<1>1. k \in Int /\ (k - 1) * d < n  BY CeilSpec
<1>2. CASE c <= k - 1
  <2>1. CASE c = k - 1  BY <2>1, <1>1, Z3
  <2>2. CASE c <= k - 2
    <3>1. ((k - 1) - c) * d >= d  BY <2>2, <1>1, MulMono, Z3
    <3>2. ((k - 1) - c) * d = (k - 1) * d - c * d  BY <1>1, Distrib, Z3
    <3> QED BY <3>1, <3>2, <1>1, Z3
  <2> QED BY <1>2, <2>1, <2>2, <1>1, Z3
<1> QED BY <1>2, <1>1, Z3

THEOREM CeilSubadditive ==
  ASSUME NEW d \in Nat \ {0}, NEW a \in Int, NEW b \in Int
  PROVE  Ceil(a, d) + Ceil(b, d) >= Ceil(a + b, d)
<1>1. Ceil(a, d) \in Int /\ Ceil(a, d) * d >= a  BY CeilSpec
<1>2. Ceil(b, d) \in Int /\ Ceil(b, d) * d >= b  BY CeilSpec
<1>3. (Ceil(a, d) + Ceil(b, d)) * d = Ceil(a, d) * d + Ceil(b, d) * d  BY <1>1, <1>2, Z3
<1>4. (Ceil(a, d) + Ceil(b, d)) * d >= a + b  BY <1>1, <1>2, <1>3, Z3
<1>5. a + b \in Int /\ Ceil(a, d) + Ceil(b, d) \in Int  BY <1>1, <1>2, Z3
<1> QED BY <1>4, <1>5, CeilLeast

THEOREM DiscreteStep ==
  ASSUME NEW d \in Nat \ {0}, NEW S \in Int, NEW a \in Int, NEW acc \in Int,
         a >= 0,                       \* every term is shifted by its row minimum: byte cells are never negative
         acc >= Cap(Ceil(S, d))
  PROVE  Sat(acc + Ceil(a, d)) >= Cap(Ceil(S + a, d))
<1>1. Ceil(S, d) + Ceil(a, d) >= Ceil(S + a, d)  BY CeilSubadditive
<1>2. Ceil(S, d) \in Int /\ Ceil(a, d) \in Int  BY CeilSpec
<1>3. S + a \in Int  BY Z3
<1>4. Ceil(S + a, d) \in Int  BY <1>3, CeilSpec
<1>5. Ceil(a, d) >= 0
  <2>1. (Ceil(a, d) - 1) * d < a /\ Ceil(a, d) \in Int  BY CeilSpec
  <2>2. CASE Ceil(a, d) <= -1
    <3>1. (0 - Ceil(a, d)) * d >= d  BY <2>1, <2>2, MulMono, Z3
    <3>2. (0 - Ceil(a, d)) * d = 0 * d - Ceil(a, d) * d  BY <2>1, Distrib, Z3
    <3>3. Ceil(a, d) * d >= a  BY CeilSpec
    <3>4. 0 * d = 0  BY Z3
    <3>5. Ceil(a, d) * d <= 0 - d  BY <3>1, <3>2, <3>4, <2>1, Z3
    <3>6. a >= 0 /\ d >= 1  BY Z3
    <3>7. Ceil(a, d) * d \in Int  BY <2>1, Z3
    <3> QED BY <3>5, <3>3, <3>6, <3>7, Z3
  <2> QED BY <2>1, <2>2, Z3
<1>6. CASE acc >= 255
  BY <1>6, <1>5, <1>2, <1>4, Z3 DEF Sat, Cap
<1>7. CASE acc < 255
  <2>1. Ceil(S, d) <= acc  BY <1>7, <1>2, Z3 DEF Cap
  <2>2. acc + Ceil(a, d) >= Ceil(S + a, d)  BY <2>1, <1>1, <1>2, <1>4, Z3
  <2> QED BY <2>2, <1>2, <1>4, Z3 DEF Sat, Cap
<1> QED BY <1>6, <1>7, Z3
=============================================================================
