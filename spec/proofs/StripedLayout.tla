--------------------------- MODULE StripedLayout ---------------------------
(***************************************************************************)
(* Unbounded facts behind the striped layout, proved with TLAPS (the       *)
(* bounded models check them for small R and C only).  Position i of a     *)
(* sequence / score table with R > 0 rows lives in row i mod R, column     *)
(* i div R; a cell (r, c) holds position c R + r.  Used by Striped.tla     *)
(* (C04), Score.tla (C01), Scores.tla (C01, C07) and Scanner.tla (the      *)
(* scanner's index = col * rows + row).                                    *)
(*   OffsetOfPosition  : the two maps are inverse on positions             *)
(*   PositionOfOffset  : ... and on cells                                  *)
(*   InTable           : a position below R C falls in one of the C columns*)
(*   BackCursor        : the column of the LAST valid position, (e-1) div R*)
(*                       differs from e div R exactly when e is a multiple *)
(*                       of R - the off-by-one of the coordinate-cursor    *)
(*                       iterator kept as negative control in MC_Scores    *)
(***************************************************************************)
EXTENDS Integers, TLAPS

LEMMA MulMono ==
  ASSUME NEW a \in Int, NEW R \in Nat \ {0}, a >= 1
  PROVE  a * R >= R
  BY Z3

LEMMA Distrib ==
  ASSUME NEW a \in Int, NEW b \in Int, NEW R \in Int
  PROVE  (a - b) * R = a * R - b * R
  BY Z3

LEMMA DivMod ==
  ASSUME NEW R \in Nat \ {0}, NEW n \in Int
  PROVE  /\ n = (n \div R) * R + (n % R)
         /\ (n % R) \in 0..(R - 1)
         /\ (n \div R) \in Int
  BY Z3

THEOREM OffsetOfPosition ==
  ASSUME NEW R \in Nat \ {0}, NEW i \in Nat
  PROVE  (i \div R) * R + (i % R) = i
  BY DivMod

\* uniqueness of quotient and remainder
LEMMA Unique ==
  ASSUME NEW R \in Nat \ {0}, NEW c \in Int, NEW q \in Int, NEW r \in 0..(R - 1), NEW m \in 0..(R - 1),
         c * R + r = q * R + m
  PROVE  c = q /\ r = m
<1>a. R \in Int /\ r \in Int /\ m \in Int  BY Z3
<1>b. (c - q) * R = c * R - q * R  BY <1>a, Distrib
<1>c. (q - c) * R = q * R - c * R  BY <1>a, Distrib
<1>1. (c - q) * R = m - r
  BY <1>a, <1>b, Z3
<1>2. c - q = 0
  <2>1. CASE c - q >= 1
    <3>1. (c - q) * R >= R  BY <2>1, MulMono
    <3> QED BY <3>1, <1>1, Z3
  <2>2. CASE c - q <= -1
    <3>1. (q - c) * R >= R  BY <2>2, MulMono
    <3>2. (q - c) * R = r - m  BY <1>a, <1>c, Z3
    <3> QED BY <3>1, <3>2, Z3
  <2> QED BY <2>1, <2>2, Z3
<1>3. m = r
  <2>1. (c - q) * R = 0  BY <1>2, Z3
  <2> QED BY <2>1, <1>1, Z3
<1> QED BY <1>2, <1>3, Z3

THEOREM PositionOfOffset ==
  ASSUME NEW R \in Nat \ {0}, NEW r \in 0..(R - 1), NEW c \in Nat
  PROVE  /\ (c * R + r) % R = r
         /\ (c * R + r) \div R = c
<1> DEFINE n == c * R + r
<1>0. n \in Int  BY Z3
<1>1. n = (n \div R) * R + (n % R) /\ (n % R) \in 0..(R - 1) /\ (n \div R) \in Int
  BY <1>0, DivMod
<1>2. c = (n \div R) /\ r = (n % R)
  BY <1>1, Unique
<1> QED BY <1>2

THEOREM InTable ==
  ASSUME NEW R \in Nat \ {0}, NEW C \in Nat \ {0}, NEW i \in 0..(R * C - 1)
  PROVE  /\ (i \div R) \in 0..(C - 1)
         /\ (i % R) \in 0..(R - 1)
<1> DEFINE q == i \div R
<1> DEFINE m == i % R
<1>1. i = q * R + m /\ m \in 0..(R - 1) /\ q \in Int
  BY DivMod
<1>2. q >= 0
  <2>1. CASE q <= -1
    <3>1. (0 - q) * R >= R  BY <2>1, <1>1, MulMono
    <3>2. (0 - q) * R = 0 * R - q * R  BY <1>1, Distrib
    <3> QED BY <3>1, <3>2, <1>1, Z3
  <2> QED BY <2>1, <1>1, Z3
<1>3. q <= C - 1
  <2>1. CASE q >= C
    <3>1. CASE q = C
      BY <3>1, <1>1, Z3
    <3>2. CASE q >= C + 1
      <4>1. (q - C) * R >= R  BY <3>2, <1>1, MulMono
      <4>2. (q - C) * R = q * R - C * R  BY <1>1, Distrib
      <4>3. C * R = R * C  BY Z3
      <4> QED BY <4>1, <4>2, <4>3, <1>1, Z3
    <3> QED BY <2>1, <3>1, <3>2, <1>1, Z3
  <2> QED BY <2>1, <1>1, Z3
<1> QED BY <1>1, <1>2, <1>3, Z3

THEOREM BackCursor ==
  ASSUME NEW R \in Nat \ {0}, NEW e \in Nat \ {0}
  PROVE  /\ (e % R = 0) => (e \div R) = ((e - 1) \div R) + 1
         /\ (e % R # 0) => (e \div R) = ((e - 1) \div R)
<1> DEFINE q == e \div R
<1> DEFINE m == e % R
<1>1. e = q * R + m /\ m \in 0..(R - 1) /\ q \in Int
  BY DivMod
<1> DEFINE q1 == (e - 1) \div R
<1> DEFINE m1 == (e - 1) % R
<1>2. e - 1 = q1 * R + m1 /\ m1 \in 0..(R - 1) /\ q1 \in Int
  BY DivMod
<1>3. ASSUME m = 0 PROVE q = q1 + 1
  <2>1. (q - 1) * R = q * R - 1 * R  BY <1>1, Distrib
  <2>2. (q - 1) * R + (R - 1) = q1 * R + m1  BY <1>1, <1>2, <1>3, <2>1, Z3
  <2>3. (R - 1) \in 0..(R - 1)  BY Z3
  <2>4. q - 1 = q1  BY <2>2, <2>3, <1>1, <1>2, Unique
  <2> QED BY <2>4, <1>1, <1>2, Z3
<1>4. ASSUME m # 0 PROVE q = q1
  <2>1. (m - 1) \in 0..(R - 1)  BY <1>1, <1>4, Z3
  <2>2. q * R + (m - 1) = q1 * R + m1  BY <1>1, <1>2, Z3
  <2> QED BY <2>1, <2>2, <1>1, <1>2, Unique
<1> QED BY <1>3, <1>4
=============================================================================
