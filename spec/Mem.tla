--------------------------------- MODULE Mem ---------------------------------
(***************************************************************************)
(* C06 - memory accesses of the vectorised kernels (platform/avx2.rs,      *)
(* platform/sse2.rs).                                                      *)
(*                                                                         *)
(* A-layer: a call owns a list of regions [name, size, base_mod] (the      *)
(* buffers of its arguments and results, padding of dense matrices         *)
(* included) and makes accesses, summarised per instruction site as        *)
(* [site, region, n, min_off, max_end, misaligned].                        *)
(*   InBounds  every access of the site lies inside its region             *)
(*   Aligned   no aligned-access instruction was given a misaligned address*)
(* I-layer: the set of accesses of each kernel as a function of its        *)
(* parameters, transcribed from the pointer arithmetic of the source:      *)
(*   EncodeAcc   blocks of W bytes while i + W <= l  (`lt`: i + W < l)     *)
(*   StripeAcc   32 x 32 tiles: for every row block i (step 32) while      *)
(*               i + 32 <= Bound, 32 loads of 32 bytes at c * R + i        *)
(*               (c = 0..31) and 32 aligned stores at row i + k            *)
(*   ScoreAcc    rows a..b-1, M loads of one sequence row r + j and one    *)
(*               matrix row j each, one store per row                      *)
(***************************************************************************)
EXTENDS Naturals, Integers, Sequences

InBounds(regions, s) == s.min_off >= 0 /\ s.max_end <= regions[s.region].size
Aligned(s) == s.misaligned = 0
SiteOK(regions, s) == s.region \in 1..Len(regions) /\ InBounds(regions, s) /\ Aligned(s)

\* ---------------------------------------------------------------- I-layer
NRows(L, C) == (L + C - 1) \div C
Min2(a, b) == IF a <= b THEN a ELSE b

\* encode: largest end offset read from the source (0 if no block)
RECURSIVE EncBlocks(_, _, _, _)
EncBlocks(i, l, W, test) == IF (test = "le" /\ i + W <= l) \/ (test = "lt" /\ i + W < l) THEN EncBlocks(i + W, l, W, test) ELSE i
EncodeMaxEnd(l, W, test) == EncBlocks(0, l, W, test)        \* blocks are contiguous from 0

\* stripe_avx2: tiles while i + 32 <= bound; the deepest read is the last column of the last tile
StripeTiles(bound) == bound \div 32                          \* number of row blocks
StripeMaxEnd(L, bound) ==
  LET R == NRows(L, 32)  t == StripeTiles(bound) IN
  IF L = 0 \/ t = 0 THEN 0 ELSE 31 * R + (t - 1) * 32 + 32
\* as coded: bound = R ; guarded: bound = L - 31 R (never negative when tiles exist)
BoundAsCoded(L) == NRows(L, 32)
BoundGuarded(L) == LET R == NRows(L, 32) IN IF L >= 31 * R THEN Min2(R, L - 31 * R) ELSE 0

\* scoring: the deepest sequence row read is (b - 1) + (M - 1); the matrix must hold R + wrap rows
ScoreMaxSeqRow(b, M) == b - 1 + M - 1
=============================================================================
