----------------------------- MODULE Trace_C08 -----------------------------
(***************************************************************************)
(* Trace validation for C08.  One event = one discretised matrix (logged   *)
(* as produced by to_discrete), one sequence, one backend: the 8-bit       *)
(* scores of every valid position, the real score of every position with   *)
(* its image under the matrix's own scale(), and (threshold, scale)        *)
(* pairs.  Decisive (what C08 states):                                     *)
(*   RealOK      logged real scores are the window scores                  *)
(*   NoUnder     8-bit score of position i >= scale(real score of i)       *)
(*   NoLostHit   real score >= t  =>  8-bit score >= scale(t)              *)
(*   Monotone    scale is non-decreasing on the logged scores              *)
(*   no panic in the in-contract call                                      *)
(*   dscan events: the Scanner (the pre-filter's user) run to exhaustion   *)
(*   reports every position whose real score meets the threshold           *)
(* Advisory notes: cells equal the exact round-up (or one more), the       *)
(* 8-bit score is the saturating sum of the logged matrix.                 *)
(* `overflow` in the diagnostic says whether some window's plain cell sum  *)
(* exceeds 255 (identifies the known non-saturating generic kernel).       *)
(***************************************************************************)
EXTENDS Discrete, TLC, Json, IOUtils

VARIABLES l, st

Rec == ndJsonDeserialize(IOEnv.TRACE)
InitState == 0

(* dscan: the pre-filter as used by the Scanner, run to exhaustion: no position meeting the threshold is lost *)
ApplyScan(s, e) ==
  LET W == e.K - 1
      n == NScores(Len(e.seq), Len(e.pssm))
      hits == {e.hits[q] : q \in 1..Len(e.hits)}
      lost == {i \in 0..(n - 1) : WindowScore(e.pssm, e.seq, i, W) >= e.thr /\ i \notin hits}
  IN IF e.ret # "ok" THEN [ok |-> FALSE, st |-> s, exp |-> [why |-> "panic", overflow |-> FALSE]]
     ELSE [ok |-> lost = {}, st |-> s,
           exp |-> [why |-> "lost_hit_in_scanner", overflow |-> FALSE, position |-> IF lost # {} THEN CHOOSE i \in lost : TRUE ELSE -1]]

(* dscan2: the threshold of a live scanner is lowered after the first hit.  The rows of the blocks after the one that  *)
(* produced the first hit were not scanned yet: none of their positions meeting the LOW threshold may be lost, and    *)
(* nothing below the low threshold is reported.  (position p lies in row p % R of the striped table, block row \div bs) *)
ApplyRethreshold(s, e) ==
  LET W == e.K - 1
      L == Len(e.seq)
      n == NScores(L, Len(e.pssm))
      R == NRows(L, e.C)
      blk(p) == (p % R) \div e.bs
      hits == {e.hits[q] : q \in 1..Len(e.hits)}
      sc(i) == WindowScore(e.pssm, e.seq, i, W)
      lost == IF e.first = <<>> THEN {}
              ELSE {i \in 0..(n - 1) : blk(i) > blk(e.first[1]) /\ sc(i) >= e.lo /\ i \notin hits}
      extra == {i \in hits : i >= n \/ sc(i) < e.lo}
      firstok == e.first = <<>> \/ (e.first[1] < n /\ sc(e.first[1]) >= e.hi)
  IN IF e.ret # "ok" THEN [ok |-> FALSE, st |-> s, exp |-> [why |-> "panic", overflow |-> FALSE]]
     ELSE [ok |-> lost = {} /\ extra = {} /\ firstok, st |-> s,
           exp |-> [why |-> IF lost # {} THEN "lost_hit_after_threshold_change" ELSE "hit_below_threshold", overflow |-> FALSE,
                    position |-> IF lost # {} THEN CHOOSE i \in lost : TRUE ELSE -1]]

ApplyScore(s, e) ==
  LET W == e.K - 1
      L == Len(e.seq)  M == Len(e.pssm)  n == NScores(L, M)
      R == NRows(L, e.C)
      \* the kernels score every cell of the striped table (padded windows included), score_position only valid positions
      overflow == \E i \in 0..((IF e.ev = "dscore" /\ n > 0 THEN R * e.C ELSE n) - 1) : PlainScore(e.pssm8, e.seq, i, W) > 255
      realok == e.real = [i \in 1..n |-> WindowScore(e.pssm, e.seq, i - 1, W)]
      mono == \A i, j \in 1..n : e.real[i] <= e.real[j] => e.sc[i] <= e.sc[j]
      got(i) == IF e.ev = "dscore" THEN CellAt(e.cells, R, i) ELSE e.pos[i + 1]
      shape == IF e.ev = "dscore" THEN (n = 0 /\ e.cells = <<>>) \/ (n > 0 /\ Len(e.cells) = R) ELSE Len(e.pos) = n
      under == {i \in 0..(n - 1) : got(i) < e.sc[i + 1]}
      lost  == {i \in 0..(n - 1) : \E q \in 1..Len(e.thr) : e.real[i + 1] >= e.thr[q][1] /\ got(i) < e.thr[q][2]}
      rg == Range(e.pssm, e.K)
      off == Offsets(e.pssm, e.K)
      finite == \A i \in 1..M : \A k \in 1..(e.K - 1) : e.pssm[i][k] # NINF
      discok == rg > 0 /\ finite => \A i \in 1..M : \A k \in 1..(e.K - 1) :
                   LET x == DiscExact(e.pssm[i][k], off[i], rg) IN e.pssm8[i][k] \in {x, Clamp8(x + 1)}
      satok == \A i \in 0..(n - 1) : got(i) = SatScore(e.pssm8, e.seq, i, W)
  IN IF e.ret # "ok"
     THEN [ok |-> FALSE, st |-> s, exp |-> [why |-> "panic", overflow |-> overflow]]
     ELSE IF ~shape THEN [ok |-> FALSE, st |-> s, exp |-> [why |-> "shape", overflow |-> overflow]]
     ELSE [ok |-> realok /\ mono /\ under = {} /\ lost = {}, st |-> s,
           exp |-> [why |-> IF ~realok THEN "real_score" ELSE IF ~mono THEN "scale_not_monotone"
                            ELSE IF under # {} THEN "underestimate" ELSE "lost_hit",
                    overflow |-> overflow,
                    position |-> IF under # {} THEN CHOOSE i \in under : TRUE ELSE IF lost # {} THEN CHOOSE i \in lost : TRUE ELSE -1],
           note |-> IF ~discok THEN "discretised cells are not the exact round-up (+0/+1)"
                    ELSE IF ~satok THEN "8-bit score is not the saturating sum of the discretised cells" ELSE ""]

Apply(s, e) == IF e.ev = "dscan" THEN ApplyScan(s, e) ELSE IF e.ev = "dscan2" THEN ApplyRethreshold(s, e) ELSE ApplyScore(s, e)

TK == INSTANCE TraceKit
Spec == TK!TKSpec
Post == TK!TKPost
=============================================================================
