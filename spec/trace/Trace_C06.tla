----------------------------- MODULE Trace_C06 -----------------------------
(***************************************************************************)
(* Trace validation for C06: one event per safe-API call executed with the *)
(* access log of hook H2 armed.  Every instruction site's accesses must be *)
(* inside the region they belong to and aligned as the instruction needs   *)
(* (Mem!SiteOK); no access may fall outside every region of the call; the  *)
(* call must not panic.  For the stripe and encode kernels the deepest     *)
(* source read is also compared with the I-layer arithmetic (advisory).    *)
(***************************************************************************)
EXTENDS Mem, TLC, Json, IOUtils

VARIABLES l, st

Rec == ndJsonDeserialize(IOEnv.TRACE)
InitState == 0

Apply(s, e) ==
  \* a vector kernel asked to score with fewer look-ahead rows than the motif needs may refuse (its documented panic)
  IF e.ret = "refused" THEN [ok |-> TRUE, st |-> s, exp |-> 0] ELSE
  IF e.ret # "ok" THEN [ok |-> FALSE, st |-> s, exp |-> [why |-> "panic", kernel |-> e.kernel]]
  ELSE
  LET bad == {q \in 1..Len(e.sites) : ~SiteOK(e.regions, e.sites[q])}
      ok == bad = {} /\ e.unattributed = 0
      srcmax == LET S == {q \in 1..Len(e.sites) : e.regions[e.sites[q].region].name = "src"} IN
                IF S = {} THEN 0 ELSE LET m == CHOOSE q \in S : \A r \in S : e.sites[r].max_end <= e.sites[q].max_end IN e.sites[m].max_end
      model == IF e.kernel = "stripe_avx2" THEN StripeMaxEnd(e.params.L, BoundGuarded(e.params.L))
               ELSE IF e.kernel = "encode_avx2" THEN EncodeMaxEnd(e.params.l, 32, "le")
               ELSE IF e.kernel = "encode_sse2" THEN EncodeMaxEnd(e.params.l, 16, "lt") ELSE -1
  IN [ok |-> ok, st |-> s,
      exp |-> IF bad = {} THEN [why |-> "access_outside_every_region", kernel |-> e.kernel]
              ELSE LET q == CHOOSE q \in bad : TRUE  x == e.sites[q] IN
                   [why |-> IF x.region \notin 1..Len(e.regions) THEN "unknown_region"
                            ELSE IF ~InBounds(e.regions, x) THEN "out_of_bounds" ELSE "misaligned",
                    kernel |-> e.kernel, site |-> x.site,
                    region |-> IF x.region \in 1..Len(e.regions) THEN e.regions[x.region].name ELSE "?",
                    size |-> IF x.region \in 1..Len(e.regions) THEN e.regions[x.region].size ELSE 0,
                    min_off |-> x.min_off, max_end |-> x.max_end, write |-> x.write],
      note |-> IF ok /\ model >= 0 /\ model # srcmax THEN "deepest source read differs from the kernel model of Mem.tla" ELSE ""]

TK == INSTANCE TraceKit
Spec == TK!TKSpec
Post == TK!TKPost
=============================================================================
