----------------------------- MODULE Trace_Scan -----------------------------
(***************************************************************************)
(* Trace validation for C02 and C03: a history is scan_new followed by     *)
(* next / max calls on one scanner; each outcome must be the A-layer       *)
(* action of Scanner.tla that is enabled in the current abstract state.    *)
(***************************************************************************)
EXTENDS Scanner, Discrete, TLC, Json, IOUtils

VARIABLES l, st

Rec == ndJsonDeserialize(IOEnv.TRACE)
InitState == [scores |-> <<>>, remaining |-> {}, live |-> FALSE, overflow |-> FALSE, thr |-> 0]

\* does some window of the striped table (padded ones included) have discretised cells summing above 255?
\* (identifies executions that run into the known non-saturating generic 8-bit kernel, see C08)
Overflow(e) == \E i \in 0..(NRows(Len(e.seq), 32) * 32 - 1) : PlainScore(e.pssm8, e.seq, i, e.K - 1) > 255

\* max_big: one best-hit request on a sequence of millions of symbols (more than 65 536 striped rows, block sizes beyond
\* that).  TLC cannot hold such a sequence: the event carries the harness's own naive rescoring (want_none / want_score,
\* declared as trusted in the evidence) and the specification states the relation of C03 on it - no panic, None exactly
\* when nothing qualifies, otherwise a hit whose exact score (re-scored at the returned position: at_pos) is the maximum.
ApplyBig(s, e) ==
  [ok |-> /\ e.ret \in {"hit", "none"}
          /\ (e.ret = "none") = e.want_none
          /\ (e.ret = "hit" => e.score = e.want_score /\ e.at_pos = e.score /\ e.pos >= 0 /\ e.pos <= e.L - e.M),
   st |-> s,
   exp |-> [why |-> IF e.ret = "panic" THEN "panic" ELSE IF e.ret = "none" THEN "missed_hits" ELSE "not_the_maximum",
            nrem |-> 0, overflow |-> FALSE, best |-> e.want_score]]

\* scan_big: iteration to exhaustion on such a sequence: exactly the qualifying positions of the naive rescoring, each once
ApplyScanBig(s, e) ==
  [ok |-> e.ret = "ok" /\ e.hits = e.want, st |-> s,
   exp |-> [why |-> IF e.ret = "panic" THEN "panic" ELSE "hits_differ_from_the_qualifying_positions", nrem |-> Len(e.want), overflow |-> FALSE, best |-> 0]]

Apply(s, e) ==
  IF e.ev = "scan_big" THEN ApplyScanBig(s, e) ELSE
  IF e.ev = "max_big" THEN ApplyBig(s, e) ELSE
  IF e.ev = "scan_new"
  THEN IF e.ret = "ok"
       THEN [ok |-> TRUE, st |-> [ScanInit(e.pssm, e.seq, e.thr, e.K - 1) EXCEPT !.overflow = Overflow(e)], exp |-> 0]
       ELSE [ok |-> FALSE, st |-> s, exp |-> [why |-> "new_panicked", nqual |-> 0, nrem |-> 0]]
  ELSE IF e.ev = "raise"
  THEN [ok |-> RaiseOK(s, e.thr), st |-> IF RaiseOK(s, e.thr) THEN RaiseStep(s, e.thr) ELSE s,
        exp |-> [why |-> "driver lowered the threshold", nrem |-> Cardinality(s.remaining), overflow |-> s.overflow, best |-> 0]]
  ELSE
    LET isnext == e.ev = "next"
        ok == IF e.ret \in {"hit", "none"} THEN (IF isnext THEN NextOK(s, e) ELSE MaxOK(s, e)) ELSE FALSE
        best == IF s.remaining = {} THEN NINF ELSE SetMax({s.scores[i + 1] : i \in s.remaining})
    IN [ok |-> ok,
        st |-> IF ~ok THEN s ELSE IF isnext THEN NextStep(s, e) ELSE MaxStep(s, e),
        exp |-> [why |-> IF e.ret = "panic" THEN "panic"
                         ELSE IF e.ret = "hang" THEN "hang"
                         ELSE IF e.ret = "none" THEN "missed_hits"
                         ELSE IF e.pos \notin 0..(Len(s.scores) - 1) THEN "position_out_of_range"
                         ELSE IF e.score # s.scores[e.pos + 1] THEN "wrong_score"
                         ELSE IF e.pos \notin s.remaining THEN "not_qualifying_or_duplicate"
                         ELSE "not_the_maximum",
                 nrem |-> Cardinality(s.remaining),
                 overflow |-> s.overflow,
                 best |-> best]]

TK == INSTANCE TraceKit
Spec == TK!TKSpec
Post == TK!TKPost
=============================================================================
