----------------------------- MODULE Trace_Scan -----------------------------
(***************************************************************************)
(* Trace validation for C02 and C03: a history is scan_new followed by     *)
(* next / max calls on one scanner; each outcome must be the A-layer       *)
(* action of Scanner.tla that is enabled in the current abstract state.    *)
(***************************************************************************)
EXTENDS Scanner, Discrete, TLC, Json, IOUtils

VARIABLES l, st

Rec == ndJsonDeserialize(IOEnv.TRACE)
InitState == [scores |-> <<>>, remaining |-> {}, live |-> FALSE, overflow |-> FALSE]

\* does some window of the striped table (padded ones included) have discretised cells summing above 255?
\* (identifies executions that run into the known non-saturating generic 8-bit kernel, see C08)
Overflow(e) == \E i \in 0..(NRows(Len(e.seq), 32) * 32 - 1) : PlainScore(e.pssm8, e.seq, i, e.K - 1) > 255

Apply(s, e) ==
  IF e.ev = "scan_new"
  THEN IF e.ret = "ok"
       THEN [ok |-> TRUE, st |-> [ScanInit(e.pssm, e.seq, e.thr, e.K - 1) EXCEPT !.overflow = Overflow(e)], exp |-> 0]
       ELSE [ok |-> FALSE, st |-> s, exp |-> [why |-> "new_panicked", nqual |-> 0, nrem |-> 0]]
  ELSE
    LET isnext == e.ev = "next"
        ok == IF e.ret \in {"hit", "none"} THEN (IF isnext THEN NextOK(s, e) ELSE MaxOK(s, e)) ELSE FALSE
        best == IF s.remaining = {} THEN NINF ELSE SetMax({s.scores[i + 1] : i \in s.remaining})
    IN [ok |-> ok,
        st |-> IF ~ok THEN s ELSE IF isnext THEN NextStep(s, e) ELSE MaxStep(s, e),
        exp |-> [why |-> IF e.ret = "panic" THEN "panic"
                         ELSE IF e.ret = "hang" THEN "hang"
                         ELSE IF e.ret = "none" THEN "missed_hits"
                         ELSE IF e.pos \notin 0..(Len(s.scores) - 1) THEN "position_out_of_range"
                         ELSE IF e.score # s.scores[e.pos + 1] THEN "wrong_score"
                         ELSE IF e.pos \notin s.remaining THEN "not_qualifying_or_duplicate"
                         ELSE "not_the_maximum",
                 nrem |-> Cardinality(s.remaining),
                 overflow |-> s.overflow,
                 best |-> best]]

TK == INSTANCE TraceKit
Spec == TK!TKSpec
Post == TK!TKPost
=============================================================================
