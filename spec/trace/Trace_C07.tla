----------------------------- MODULE Trace_C07 -----------------------------
(***************************************************************************)
(* Trace validation for C07: for every recorded reduction over a striped   *)
(* score table (f32 on the grid, or u8) the reported maximum must be       *)
(* Reduce!MaxDef, the arg-maximum must designate a cell holding it, the    *)
(* threshold result must be exactly Reduce!ThresholdSet (each cell once),  *)
(* and everything must be None / empty on an empty table.  The dispatching *)
(* StripedScores API reports column-major offsets (Reduce!Offset), the     *)
(* linear Scores API plain indices.                                        *)
(***************************************************************************)
EXTENDS Reduce, Score, TLC, Json, IOUtils

VARIABLES l, st

Rec == ndJsonDeserialize(IOEnv.TRACE)
InitState == 0

SeqSet(s) == {s[i] : i \in 1..Len(s)}

ApplyStriped(s, e) ==
  IF e.ret # "ok" THEN [ok |-> FALSE, st |-> s, exp |-> [why |-> "panic"]]
  ELSE
  LET t == e.rows  n == Len(t)  C == e.C
      coord == e.api = "pipeline"
      maxok == IF n = 0 THEN e.max = <<>> ELSE e.max = <<MaxDef(t, C)>>
      argok == IF n = 0 THEN (IF coord THEN e.argmax = <<>> ELSE e.argmax_off = <<>>)
               ELSE IF coord THEN Len(e.argmax) = 2 /\ ArgmaxOK(t, C, e.argmax[1], e.argmax[2])
               ELSE Len(e.argmax_off) = 1 /\ e.argmax_off[1] \in 0..(n * C - 1)
                    /\ ArgmaxOK(t, C, e.argmax_off[1] % n, e.argmax_off[1] \div n)
      want  == ThresholdSet(t, C, e.thr)
      throk == IF coord
               THEN {<<e.hits[i][1], e.hits[i][2]>> : i \in 1..Len(e.hits)} = want /\ Len(e.hits) = Cardinality(want)
               ELSE SeqSet(e.hits_off) = {Offset(n, h[1], h[2]) : h \in want} /\ Len(e.hits_off) = Cardinality(want)
  IN [ok |-> maxok /\ argok /\ throk, st |-> s,
      exp |-> [why |-> IF ~maxok THEN "max" ELSE IF ~argok THEN "argmax" ELSE "threshold",
               max |-> IF n = 0 THEN <<>> ELSE <<MaxDef(t, C)>>,
               nhits |-> Cardinality(want)]]

ApplyLin(s, e) ==
  IF e.ret # "ok" THEN [ok |-> FALSE, st |-> s, exp |-> [why |-> "panic"]]
  ELSE
  LET v == e.vals  n == Len(v)
      mx == IF n = 0 THEN <<>> ELSE <<SetMax(SeqSet(v))>>
      maxok == e.max = mx
      argok == IF n = 0 THEN e.argmax = <<>>
               ELSE Len(e.argmax) = 1 /\ e.argmax[1] \in 0..(n - 1) /\ v[e.argmax[1] + 1] = mx[1]
      want == {i - 1 : i \in {j \in 1..n : v[j] >= e.thr}}
      throk == SeqSet(e.hits) = want /\ Len(e.hits) = Cardinality(want)
  IN [ok |-> maxok /\ argok /\ throk, st |-> s,
      exp |-> [why |-> IF ~maxok THEN "max" ELSE IF ~argok THEN "argmax" ELSE "threshold", max |-> mx, nhits |-> Cardinality(want)]]

\* Second sentence of C07: a real score table (full scan of a striped sequence, wildcard column -inf): valid
\* positions hold their window score, every cell past the last valid position holds -inf (Score!BadCells checks
\* both), hence the reported float maximum is the best valid position's score whenever one is finite.
ApplyPadding(s, e) ==
  IF e.ret # "ok" THEN [ok |-> FALSE, st |-> s, exp |-> [why |-> "panic"]]
  ELSE
  LET W == e.K - 1
      shape == ShapeOK(e)
      bad == IF shape THEN BadCells(e) ELSE {}
      un == UnstripeDef(e.pssm, e.seq, W)
      fin == {i \in 1..Len(un) : un[i] # NINF}
      maxok == (shape /\ fin # {}) => e.max = <<SetMax({un[i] : i \in fin})>>
  IN [ok |-> shape /\ bad = {} /\ maxok, st |-> s,
      exp |-> [why |-> IF ~shape THEN "shape" ELSE IF bad # {} THEN "padding_cell_not_neg_inf_or_wrong_score" ELSE "max_is_not_the_best_valid_score",
               origin |-> e.origin]]

\* tables TLC cannot hold (more than 65 536 rows): the recorder's own naive maximum (`want`, trusted) against the reported
\* maximum and the cell the arg-maximum designates; a kernel may refuse such a table (its documented size limit)
ApplyBigTable(s, e) ==
  [ok |-> e.ret = "refused" \/ (e.ret = "ok" /\ e.max = <<e.want>> /\ e.cell = <<e.want>>), st |-> s,
   exp |-> [why |-> "maximum_or_argmax_of_a_table_beyond_65536_rows", want |-> e.want]]

Apply(s, e) == IF e.ev = "reduce_big" THEN ApplyBigTable(s, e) ELSE IF e.ev = "reduce" THEN ApplyStriped(s, e) ELSE IF e.ev = "padding" THEN ApplyPadding(s, e) ELSE ApplyLin(s, e)

TK == INSTANCE TraceKit
Spec == TK!TKSpec
Post == TK!TKPost
=============================================================================
