----------------------------- MODULE Trace_C15 -----------------------------
(***************************************************************************)
(* Trace validation for C15: one event per (malformed) input: the sequence *)
(* of outcomes of Reader::new and of next() until the first non-record     *)
(* must satisfy Reader!TotalOK - no panic, no hang, bounded.               *)
(***************************************************************************)
EXTENDS Reader, TLC, Json, IOUtils

VARIABLES l, st

Rec == ndJsonDeserialize(IOEnv.TRACE)
InitState == 0

Apply(s, e) ==
  [ok |-> TotalOK(e.outcomes, e.len), st |-> s,
   exp |-> [why |-> IF \E i \in 1..Len(e.outcomes) : e.outcomes[i] = "panic_in_new" THEN "panic_in_new"
                    ELSE IF \E i \in 1..Len(e.outcomes) : e.outcomes[i] = "panic" THEN "panic"
                    ELSE IF \E i \in 1..Len(e.outcomes) : e.outcomes[i] = "hang" THEN "hang" ELSE "unbounded"]]

TK == INSTANCE TraceKit
Spec == TK!TKSpec
Post == TK!TKPost
=============================================================================
