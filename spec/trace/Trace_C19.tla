----------------------------- MODULE Trace_C19 -----------------------------
(***************************************************************************)
(* Trace validation for C19: every recorded DenseMatrix operation must be  *)
(* the step the A-layer of Dense.tla prescribes (full logical contents of  *)
(* both matrices after every call, the observation returned, and the       *)
(* layout facts: stride, row alignment, row spacing).                      *)
(***************************************************************************)
EXTENDS Dense, TLC, Json, IOUtils

VARIABLES l, st

Rec == ndJsonDeserialize(IOEnv.TRACE)

\* state: [cfg |-> [C, K], m |-> [a, b]]
InitState == [C |-> 0, K |-> 0, m |-> DenseInit]

Align == 32   \* x86-64 (the only target this sandbox can execute)

Apply(s, e) ==
  IF e.ev = "dense_cfg"
  THEN [ok |-> TRUE, st |-> [C |-> e.C, K |-> e.K, m |-> DenseInit], exp |-> 0]
  ELSE
    LET o == e.o IN
    IF ~InContract(s.m, o, s.C)
    THEN [ok |-> FALSE, st |-> s, exp |-> "driver issued an out-of-contract call"]
    ELSE
      LET r   == DenseStep(s.m, o, s.C, s.K)
          lay == e.post.layout
          good == /\ e.ret = "ok"
                  /\ e.post.a = r.st.a
                  /\ e.post.b = r.st.b
                  /\ e.obs = r.obs
                  /\ lay.n = Len(r.st[o.tgt])
                  /\ lay.cols = s.C
                  /\ LayoutOK(s.C, lay.sz, Align, lay.stride, lay.pmods, lay.pdeltas)
      IN [ok |-> (e.ret = "ok") /\ good,
          st |-> [s EXCEPT !.m = r.st],
          exp |-> [a |-> r.st.a, b |-> r.st.b, obs |-> r.obs, layout |-> "stride>=C, stride*sz%32=0, rows 32-byte aligned, one stride apart"]]

TK == INSTANCE TraceKit
Spec == TK!TKSpec
Post == TK!TKPost
=============================================================================
