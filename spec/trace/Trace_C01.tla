----------------------------- MODULE Trace_C01 -----------------------------
(***************************************************************************)
(* Trace validation for C01: every recorded scoring call (any backend /    *)
(* dispatcher arm / alphabet / column count / row sub-range / entry point) *)
(* must have the shape and the cell values Score.tla prescribes, full      *)
(* scans must unstripe to the list of window scores, sampled Index results *)
(* and ScoringMatrix::score_position must equal the window score.          *)
(***************************************************************************)
EXTENDS Score, TLC, Json, IOUtils

VARIABLES l, st

Rec == ndJsonDeserialize(IOEnv.TRACE)
InitState == 0

ApplyScore(s, e) ==
  IF e.ret # "ok" THEN [ok |-> FALSE, st |-> s, exp |-> [why |-> "panic"]]
  ELSE
  LET W    == e.K - 1
      shape == ShapeOK(e)
      bad  == IF shape THEN BadCells(e) ELSE {}
      un   == UnstripeDef(e.pssm, e.seq, W)
      \* (back_ok: the recorder read the same list from the back through iter().rev(); present on kernel events only)
      unok == ~e.full \/ (e.unstripe = un /\ ("back_ok" \in DOMAIN e => e.back_ok))
      idxok == \A q \in 1..Len(e.index) : e.index[q][2] = WindowScore(e.pssm, e.seq, e.index[q][1], W)
      ok   == shape /\ bad = {} /\ unok /\ idxok
  IN [ok |-> ok, st |-> s,
      exp |-> [why |-> IF ~shape THEN "shape" ELSE IF bad # {} THEN "cell_value" ELSE IF ~unok THEN "unstripe" ELSE "index",
               nscores |-> NScores(Len(e.seq), Len(e.pssm)),
               first_bad |-> IF bad = {} THEN <<>> ELSE
                   LET rc == CHOOSE x \in bad : TRUE
                       i  == (rc[2] - 1) * NRows(Len(e.seq), e.C) + (e.a + rc[1] - 1)
                   IN <<rc[1] - 1, rc[2] - 1, i, WindowScore(e.pssm, e.seq, i, W)>>],
      note |-> IF ok /\ OddPadCells(e) # {} THEN "cells past the last valid position differ from the reference kernel" ELSE ""]

ApplyPos(s, e) ==
  IF e.ret # "ok" THEN [ok |-> FALSE, st |-> s, exp |-> [why |-> "panic"]]
  ELSE LET un == UnstripeDef(e.pssm, e.seq, e.K - 1) IN
       [ok |-> e.vals = un, st |-> s, exp |-> [why |-> "score_position", vals |-> un]]

Apply(s, e) == IF e.ev = "score" THEN ApplyScore(s, e) ELSE ApplyPos(s, e)

TK == INSTANCE TraceKit
Spec == TK!TKSpec
Post == TK!TKPost
=============================================================================
