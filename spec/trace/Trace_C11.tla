----------------------------- MODULE Trace_C11 -----------------------------
(***************************************************************************)
(* Trace validation for C11.  One event per scoring matrix (grid 1/G) and  *)
(* background bn/bd: structural facts of the whole survival-function table *)
(* (non-increasing, within [0,1]), p-values of a list of scores as         *)
(* numerators over bd^M, and p -> score -> p round trips.  The exact tail  *)
(* is recomputed by Dist!ConvDist; the stated resolution is                *)
(* d = (ceil(M/2) + 1) discretisation steps of 1/scale.                    *)
(***************************************************************************)
EXTENDS Dist, TLC, Json, IOUtils

VARIABLES l, st

Rec == ndJsonDeserialize(IOEnv.TRACE)
InitState == 0

Apply(s, e) ==
  IF e.ret # "ok" THEN [ok |-> FALSE, st |-> s, exp |-> [why |-> "panic"]]
  ELSE
  LET K  == e.K
      M  == Len(e.pssm)
      \* events carrying `sat` (backgrounds whose bd^M leaves 32 bits; queries in the extreme upper tail only) use the
      \* saturating distribution: numerators exact below the cap e.sat
      sat == "sat" \in DOMAIN e
      D  == IF sat THEN ConvDistSat(e.pssm, e.bn, K, e.sat) ELSE ConvDist(e.pssm, e.bn, K)
      TW(P(_)) == IF sat THEN TailWhereSat(D, P, e.sat) ELSE TailWhere(D, P)
      sc == MemeScale(e.pssm, K, e.G)
      c0 == ((M + 1) \div 2) + 1
      lo(x) == TW(LAMBDA w : (w - x) * sc >= e.G * c0)
      hi(x) == TW(LAMBDA w : (w - x) * sc >= -(e.G * c0))
      \* inexact (decimal background) numerators were rounded: one unit of slack
      slack(q) == IF e.pv[q][3] = 1 THEN 0 ELSE 1
      badpv == {q \in 1..Len(e.pv) : ~(lo(e.pv[q][1]) - slack(q) <= e.pv[q][2] /\ e.pv[q][2] <= hi(e.pv[q][1]) + slack(q))}
      mono == \A q \in 1..(Len(e.pv) - 1) : e.pv[q][1] <= e.pv[q + 1][1] => e.pv[q + 1][2] <= e.pv[q][2]
      \* pvalue(score(p)) <= p :  n2 / den <= pn / pd
      badinv == {q \in 1..Len(e.inv) : e.inv[q][3] * e.inv[q][2] > e.inv[q][1] * e.den + e.inv[q][2]}
      struct == e.sf_mono /\ e.sf_inrange /\ e.sf_len = M * 1000 + 1
      \* the two shapes of the recorded finding C11-wildcard-frequency-below-minimum, told apart from every other failure:
      \* a p-value of exactly one reported for a query so low that every attainable word counts (the exact tail is the
      \* mass of the words without a wildcard), and a round trip for a p above that mass whose score comes back with p = 1
      allmass == TW(LAMBDA w : TRUE)
      knownpv == {q \in badpv : e.pv[q][2] = e.den /\ hi(e.pv[q][1]) = allmass}
      \* scores far outside the table (1e9, f32::MAX, infinities): nothing scores that high, everything attainable scores
      \* above the low ones.  <<sign, numerator, exact>>
      far == IF "far" \in DOMAIN e THEN e.far ELSE <<>>
      badfar == {q \in 1..Len(far) : IF far[q][1] = 1 THEN far[q][2] # 0
                                     ELSE far[q][2] > allmass + (IF far[q][3] = 1 THEN 0 ELSE 1) \/ far[q][2] < allmass - (IF far[q][3] = 1 THEN 0 ELSE 1)}
      knownfar == {q \in badfar : far[q][1] = -1 /\ far[q][2] = e.den}
      knowninv == {q \in badinv : e.inv[q][3] = e.den /\ e.inv[q][1] * e.den > allmass * e.inv[q][2]}
  IN [ok |-> struct /\ badpv = {} /\ mono /\ badinv = {} /\ badfar = {}, st |-> s,
      exp |-> [why |-> IF ~struct THEN "table_not_monotone_or_out_of_range"
                       ELSE IF badpv \ knownpv # {} THEN "pvalue_outside_exact_tail_bounds"
                       ELSE IF badfar \ knownfar # {} THEN "pvalue_of_a_score_far_outside_the_table"
                       ELSE IF ~mono THEN "pvalue_not_monotone"
                       ELSE IF badinv \ knowninv # {} THEN "round_trip_increases_pvalue"
                       ELSE IF badpv # {} \/ badfar # {} THEN "pvalue_one_below_smallest_attainable_score"
                       ELSE "round_trip_for_p_above_the_mass_of_wildcard_free_words",
               detail |-> IF badpv # {} THEN LET q == IF badpv \ knownpv # {} THEN CHOOSE q \in badpv \ knownpv : TRUE ELSE CHOOSE q \in badpv : TRUE IN
                              <<e.pv[q][1], e.pv[q][2], lo(e.pv[q][1]), hi(e.pv[q][1])>>
                          ELSE IF badinv # {} THEN e.inv[CHOOSE q \in badinv : TRUE] ELSE <<>>]]

TK == INSTANCE TraceKit
Spec == TK!TKSpec
Post == TK!TKPost
=============================================================================
