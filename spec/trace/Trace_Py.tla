----------------------------- MODULE Trace_Py -----------------------------
(***************************************************************************)
(* Trace validation for C17 and C18: events recorded by py/driver.py in    *)
(* the embedded interpreter.  Each event is independent (the Python        *)
(* objects may be reused between events, the specification is a function   *)
(* of the logged arguments).  Values are defined by the D-layer modules:   *)
(*   py_calc   Score!UnstripeDef, Reduce!MaxDef / ArgmaxOK / ThresholdSet  *)
(*   py_scan   Scanner!Qual                                                *)
(*   py_create / py_norm   Pwm (counts, weights, log-odds)                 *)
(*   py_pvalue Dist (exact tails; MEME resolution, TFM-PVALUE bounds)      *)
(*   py_rc     Pwm!RC            py_load   Reader!ExpectedMatrix           *)
(*   py_call   failures are ordinary exceptions                            *)
(*   py_index / py_view   PyObj (C18)                                      *)
(***************************************************************************)
EXTENDS LmBase, PyObj, TLC, Json, IOUtils

VARIABLES l, st

Rec == ndJsonDeserialize(IOEnv.TRACE)
InitState == 0

S  == INSTANCE Score
Rd == INSTANCE Reduce
Sc == INSTANCE Scanner
P  == INSTANCE Pwm
D  == INSTANCE Dist
F  == INSTANCE Reader

Q12 == 4096
IsNum(q) == q > -1073741000 /\ q < 1073741000
Bad(why) == [ok |-> FALSE, st |-> 0, exp |-> [why |-> why]]
Res(ok, why) == [ok |-> ok, st |-> 0, exp |-> [why |-> why]]
SeqSet(s) == {s[i] : i \in 1..Len(s)}

\* the striped score table the reference kernel yields (padding cells included)
Table(pssm, seq, C, W) ==
  LET R == NRows(Len(seq), C) IN
  [r \in 1..R |-> [c \in 1..C |-> WindowScore(pssm, seq, (c - 1) * R + (r - 1), W)]]

ApplyCalc(e) ==
  LET W == e.K - 1  L == Len(e.seq)  M == Len(e.pssm)  n == NScores(L, M)
      R == NRows(L, e.C)
      un == S!UnstripeDef(e.pssm, e.seq, W)
      t == Table(e.pssm, e.seq, e.C, W)
      empty == L < M \/ R = 0
      scoresok == e.len = n /\ e.scores = un
      maxok == IF empty THEN e.max = <<>> ELSE e.max = <<Rd!MaxDef(t, e.C)>>
      argok == IF empty THEN e.argmax = <<>>
               ELSE Len(e.argmax) = 1 /\ e.argmax[1] \in 0..(R * e.C - 1)
                    /\ Rd!ArgmaxOK(t, e.C, e.argmax[1] % R, e.argmax[1] \div R)
      want == IF empty THEN {} ELSE {Rd!Offset(R, h[1], h[2]) : h \in Rd!ThresholdSet(t, e.C, e.thr)}
      throk == SeqSet(e.hits) = want /\ Len(e.hits) = Cardinality(want)
  IN Res(scoresok /\ maxok /\ argok /\ throk,
         IF ~scoresok THEN "calculate_scores" ELSE IF ~maxok THEN "max" ELSE IF ~argok THEN "argmax" ELSE "threshold")

ApplyScan(e) ==
  LET W == e.K - 1
      sc == Sc!AllScores(e.pssm, e.seq, W)
      want == {<<i, sc[i + 1]>> : i \in {j \in 0..(Len(sc) - 1) : sc[j + 1] >= e.thr}}
      got == {<<e.hits[q][1], e.hits[q][2]>> : q \in 1..Len(e.hits)}
  IN Res(got = want /\ Len(e.hits) = Cardinality(want),
         IF got \ want # {} THEN "scan_foreign_hit" ELSE IF want \ got # {} THEN "scan_lost_hit" ELSE "scan_duplicate_hit")

\* weights / log-odds of a count matrix c with pseudocounts pn/pd, checked on quantised matrices
WeightsOK(c, K, pn, pd, bn, bd, q) ==
  Len(q) = Len(c) /\ \A i \in 1..Len(c) : \A k \in 1..K :
    IF bn[k] = 0 THEN q[i][k] = 0
    ELSE IsNum(q[i][k]) /\
         LET w == P!WeightRat(P!FreqNum(c[i], pn, pd, k), P!FreqDen(c[i], pn, pd, K), bn, bd, k)
         IN P!QNear(q[i][k], w[1], w[2], Q12, 2)
ScoresOK(c, K, pn, pd, bn, bd, basen, based, q) ==
  Len(q) = Len(c) /\ \A i \in 1..Len(c) : \A k \in 1..K :
    IF bn[k] = 0 \/ P!FreqNum(c[i], pn, pd, k) = 0 THEN q[i][k] = NINF
    ELSE IsNum(q[i][k]) /\
         LET w == P!WeightRat(P!FreqNum(c[i], pn, pd, k), P!FreqDen(c[i], pn, pd, K), bn, bd, k)
             r == P!Shrink(w[1], w[2])
         IN P!Abs(q[i][k] - P!LogBaseFx(r[1], r[2], basen, based)) <= 6
Uniform(K) == [k \in 1..K |-> IF k = K THEN 0 ELSE 1]
ZeroP(K) == [k \in 1..K |-> 0]

ApplyCreate(e) ==
  IF e.expect = "exc" THEN Res(e.ret = "exc", "invalid_input_not_rejected_with_an_ordinary_exception")
  ELSE IF e.ret # "ok" THEN Bad(e.ret)
  ELSE LET M == Len(e.seqs[1])
           c == P!CountsOf(e.seqs, M, e.K)
           a == e.counts = c /\ e.isprot = (e.abc = "protein")
           b == WeightsOK(c, e.K, ZeroP(e.K), 1, Uniform(e.K), e.K - 1, e.w)
           d == ScoresOK(c, e.K, ZeroP(e.K), 1, Uniform(e.K), e.K - 1, 2, 1, e.s)
       IN Res(a /\ b /\ d, IF ~a THEN "create_counts" ELSE IF ~b THEN "create_weights" ELSE "create_scores")

ApplyNorm(e) ==
  IF e.ret # "ok" THEN Bad(e.ret)
  ELSE LET a == e.counts = e.m
           \* normalize() always divides by the uniform background ...
           b == WeightsOK(e.m, e.K, e.pn, e.pd, Uniform(e.K), e.K - 1, e.w)
           \* ... and log_odds(background, base) gives log_base(frequency / background)
           d == ScoresOK(e.m, e.K, e.pn, e.pd, e.bn, e.bd, e.basen, e.based, e.s)
       IN Res(a /\ b /\ d, IF ~a THEN "countmatrix_contents" ELSE IF ~b THEN "normalize_weights"
                           ELSE IF e.bg_given THEN "log_odds_under_given_background" ELSE "log_odds")

ApplyPvalue(e) ==
  IF e.ret # "ok" THEN Bad(e.ret)
  ELSE
  LET K == e.K  M == Len(e.pssm)
      dist == D!ConvDist(e.pssm, e.bn, K)
      sc == D!MemeScale(e.pssm, K, e.G)
      c0 == ((M + 1) \div 2) + 1
      memeok(q) == LET x == e.pv[q][1] IN
         /\ D!TailWhere(dist, LAMBDA w : (w - x) * sc >= e.G * c0) - 1 <= e.pv[q][2]
         /\ e.pv[q][2] <= D!TailWhere(dist, LAMBDA w : (w - x) * sc >= -(e.G * c0)) + 1
      \* final TFM-PVALUE value: the bounds at the coarsest granularity g = 1/10 are implied by those at the final one
      tfmok(q) == LET x == e.pv[q][1] IN
         /\ D!TailWhere(dist, LAMBDA w : (w - x) * 10 >= e.G * (M + 1)) - 1 <= e.pv[q][3]
         /\ e.pv[q][3] <= D!TailWhere(dist, LAMBDA w : (w - x) * 10 >= -(e.G * (M + 2))) + 1
      invok(q) == e.inv[q][3] * e.inv[q][2] <= e.inv[q][1] * e.den + e.inv[q][2]
      \* threshold t = t6 / 10^6, d = (M+2)/10:  w/G >= t + d  <=>  w * (10^6/G) >= t6 + (M+2) * 10^5
      tscok(q) == LET t6 == e.tsc[q][3]  pn == e.tsc[q][1]  pd == e.tsc[q][2]
                      u6 == 1000000 \div e.G
                      above == D!TailWhere(dist, LAMBDA w : w * u6 >= t6 + (M + 2) * 100000)
                      below == {w \in D!Attainable(dist) : w * u6 < t6 - (M + 2) * 100000}
                  IN /\ above * pd <= pn * e.den
                     /\ below # {} => LET u == SetMax(below) IN
                          D!TailWhere(dist, LAMBDA w : (w - u) * 10 >= -(e.G * (M + 2))) * pd >= pn * e.den
      a == \A q \in 1..Len(e.pv) : memeok(q)
      b == \A q \in 1..Len(e.pv) : tfmok(q)
      c == \A q \in 1..Len(e.inv) : invok(q)
      d == \A q \in 1..Len(e.tsc) : tscok(q)
  IN Res(a /\ b /\ c /\ d, IF ~a THEN "pvalue_meme" ELSE IF ~b THEN "pvalue_tfmpvalue" ELSE IF ~c THEN "score_pvalue_round_trip" ELSE "score_tfmpvalue")

ApplyLoad(e) ==
  IF e.ret # "ok" THEN Bad(e.ret)
  ELSE LET zero == IF e.fmt = "uniprobe" THEN "0.0" ELSE "0"
           recok(k) == LET mo == e.motifs[k]  r == e.recs[k] IN
              /\ r.m = F!ExpectedMatrix(mo, e.K, zero)
              /\ IF e.fmt = "transfac" THEN r.name = mo.name /\ r.tid = <<mo.id>> ELSE r.name = <<mo.id>>
              /\ F!HasDesc(e.fmt) => r.desc = mo.desc
       IN Res(Len(e.recs) = Len(e.motifs) /\ \A k \in 1..Len(e.motifs) : recok(k),
              IF Len(e.recs) # Len(e.motifs) THEN "load_record_count" ELSE "load_record_differs")

ApplyCall(e) ==
  CASE e.expect = "exc" -> Res(e.ret = "exc", IF e.ret = "panic" THEN "panic" ELSE "no_exception_raised")
    [] e.expect = "ok"  -> Res(e.ret = "ok", e.ret)
    [] OTHER            -> Res(e.ret \in {"ok", "exc"}, "panic")

\* ------------------------------------------------------------------------ C18
ApplyIndex(e) ==
  LET logical == IF e.kind = "scores" THEN S!UnstripeDef(e.pssm, e.seq, e.K - 1) ELSE e.logical IN
  Res(NoPanic(e.probes) /\ e.len = Len(logical) /\ GetItemOK(logical, e.probes),
      IF ~NoPanic(e.probes) THEN "index_panic" ELSE IF e.len # Len(logical) THEN "len" ELSE "index")

ApplyView(e) ==
  IF e.ret = "panic" THEN Bad("view_panic")
  ELSE
  CASE e.kind = "encoded" ->
         Res(e.ret = "ok" /\ e.format = "B" /\ e.itemsize = 1 /\ e.ndim = 1 /\ e.shape = <<Len(e.logical)>> /\ e.list = e.logical, "encoded_view")
    [] e.kind = "striped" ->
         IF e.R = 0 THEN Res(e.ret = "exc" \/ (e.ret = "ok" /\ (e.list = <<>> \/ \A c \in 1..Len(e.list) : e.list[c] = <<>>)), "empty_view")
         ELSE LET W == e.K - 1
                  rows == IF e.ret = "ok" /\ Len(e.shape) = 2 THEN e.shape[2] ELSE 0
              IN Res(/\ e.ret = "ok" /\ e.format = "B" /\ e.itemsize = 1 /\ e.ndim = 2
                     /\ e.shape[1] = e.C /\ rows = e.R          \* the logical extents: look-ahead rows are not exposed
                     /\ e.list = [c \in 1..e.C |-> [r \in 1..rows |-> StripedCell(e.logical, e.C, r - 1, c - 1, W)]],
                     "striped_view")
    [] e.kind = "scores" ->
         LET W == e.K - 1  L == Len(e.seq)  M == Len(e.pssm) IN
         IF L < M \/ e.R = 0
         THEN Res(e.ret = "exc" \/ (e.ret = "ok" /\ (e.list = <<>> \/ \A c \in 1..Len(e.list) : e.list[c] = <<>>)), "empty_view")
         ELSE LET t == Table(e.pssm, e.seq, e.C, W) IN
              Res(/\ e.ret = "ok" /\ e.format = "f" /\ e.itemsize = 4 /\ e.ndim = 2 /\ e.shape = <<e.C, e.R>>
                  /\ e.list = [c \in 1..e.C |-> [r \in 1..e.R |-> t[r][c]]], "scores_view")
    [] e.kind = "scoring" ->
         LET M == Len(e.logical) IN
         Res(/\ e.ret = "ok" /\ e.format = "f" /\ e.itemsize = 4 /\ e.ndim = 2
             /\ \/ (e.shape = <<M, e.K>> /\ e.list = e.logical)
                \/ (e.shape = <<e.K, M>> /\ e.list = Transpose(e.logical, M, e.K)), "scoring_matrix_view")
    [] e.kind = "sf_same" ->
         \* the table of a reverse complement (taken after the forward table was requested) against the table of a matrix
         \* built afresh from the same scores and background: every 37th entry of both
         Res(/\ e.ret = "ok" /\ e.format = "d" /\ e.itemsize = 8 /\ e.ndim = 1
             /\ e.shape = <<e.M * 1000 + 1>> /\ e.list = e.logical, "survival_function_of_another_matrix")
    [] e.kind = "sf" ->
         Res(/\ e.ret = "ok" /\ e.format = "d" /\ e.itemsize = 8 /\ e.ndim = 1
             /\ e.shape = <<e.logical[1] * 1000 + 1>> /\ e.list[3] = e.logical[1] * 1000 + 1
             /\ e.list[1] = 1048576 /\ e.list[2] >= 0 /\ e.list[4] = 1, "survival_function_view")

Apply(s, e) ==
  CASE e.ev = "py_calc"   -> IF e.ret # "ok" THEN Bad(e.ret) ELSE ApplyCalc(e)
    [] e.ev = "py_scan"   -> IF e.ret # "ok" THEN Bad(e.ret) ELSE ApplyScan(e)
    [] e.ev = "py_create" -> ApplyCreate(e)
    [] e.ev = "py_norm"   -> ApplyNorm(e)
    [] e.ev = "py_pvalue" -> ApplyPvalue(e)
    [] e.ev = "py_rc"     -> IF e.ret # "ok" THEN Bad(e.ret) ELSE Res(e.out = P!RC(e.m), "reverse_complement")
    [] e.ev = "py_load"   -> ApplyLoad(e)
    [] e.ev = "py_call"   -> ApplyCall(e)
    [] e.ev = "py_index"  -> ApplyIndex(e)
    [] e.ev = "py_view"   -> ApplyView(e)

TK == INSTANCE TraceKit
Spec == TK!TKSpec
Post == TK!TKPost
=============================================================================
