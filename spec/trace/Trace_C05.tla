----------------------------- MODULE Trace_C05 -----------------------------
(***************************************************************************)
(* Trace validation for C05: every recorded encode call (any backend, any  *)
(* API entry point) must return what Encode!EncodeDef prescribes for its   *)
(* input bytes, and displaying an accepted result must reproduce them.     *)
(***************************************************************************)
EXTENDS Encode, TLC, Json, IOUtils

VARIABLES l, st

Rec == ndJsonDeserialize(IOEnv.TRACE)
InitState == 0

Apply(s, e) ==
  LET rank    == IF e.abc = "dna" THEN DnaRank ELSE ProteinRank
      letters == IF e.abc = "dna" THEN DnaLetters ELSE ProteinLetters
      d  == EncodeDef(e.bytes, rank)
      ok == IF d.ok
            THEN e.ret = "ok" /\ e.syms = d.syms /\ e.text = e.bytes
            ELSE e.ret = "err" /\ e.byte = d.byte
  IN [ok |-> ok, st |-> s,
      exp |-> [why |-> IF e.ret = "panic" THEN "panic"
                       ELSE IF d.ok /\ e.ret # "ok" THEN "rejected_valid_input"
                       ELSE IF ~d.ok /\ e.ret = "ok" THEN "accepted_invalid_input"
                       ELSE IF ~d.ok THEN "wrong_offending_byte"
                       ELSE IF e.syms # d.syms THEN "wrong_symbols" ELSE "display_differs",
               ok |-> d.ok, byte |-> d.byte]]

TK == INSTANCE TraceKit
Spec == TK!TKSpec
Post == TK!TKPost
=============================================================================
