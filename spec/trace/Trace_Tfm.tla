----------------------------- MODULE Trace_Tfm -----------------------------
(***************************************************************************)
(* Trace validation for C12 (tfm_pvalue) and C13 (tfm_score): every        *)
(* refinement step reported by approximate_pvalue / approximate_score is   *)
(* checked against the exact tail of Dist!ConvDist.                        *)
(*  scores: matrix cells in units of 1/G -> 1/U, U = 2 G (w = 2 * cell);   *)
(*  query scores s8 / U; granularity g = 1 / ginv (ginv = 10^k); thresholds      *)
(*  t = tk / ginv; probabilities as numerators over den = bd^M.            *)
(* C12:  0 <= pmin <= pmax <= 1,                                           *)
(*       P(S >= s + (M+1) g) <= pmin,   pmax <= P(S >= s - (M+2) g)        *)
(* C13:  d = (M+2) g:  P(S >= t + d) <= p,  and with u the largest         *)
(*       attainable score below t - d (if any)  P(S >= u - d) >= p         *)
(***************************************************************************)
EXTENDS Tfm, TLC, Json, IOUtils

VARIABLES l, st

Rec == ndJsonDeserialize(IOEnv.TRACE)
InitState == 0

Double(m) == [i \in 1..Len(m) |-> [k \in 1..Len(m[i]) |-> IF m[i][k] = NINF THEN NINF ELSE 2 * m[i][k]]]

\* scores in units of 1/U, U = 2 G:  w/U >= s/U + c/ginv   <=>   (w - s) * ginv >= U c
Uof(e) == 2 * e.G
\* Queries just above a grid score: events carrying `eps` ask for s = s8 / U + 3e-8 (the refinement then runs down to
\* g = 1e-8 .. 1e-10, where x * ginv no longer fits 32 bits).  With T = U c / ginv (c = M+1 or M+2) and w, s8 integers:
\*   w/U >= s + c g  <=>  w - s8 >= ceil(T + U eps)  = floor(T) + 1        while T > U eps, i.e. c * 10^(8-k) > 3, and 1 afterwards
\*   w/U >= s - c g  <=>  w - s8 >= ceil(U eps - T)  = -(ceil(T) - 1)      while T > U eps,                     and 1 afterwards
Pow10(n) == IF n = 0 THEN 1 ELSE IF n = 1 THEN 10 ELSE IF n = 2 THEN 100 ELSE IF n = 3 THEN 1000 ELSE IF n = 4 THEN 10000
            ELSE IF n = 5 THEN 100000 ELSE IF n = 6 THEN 1000000 ELSE IF n = 7 THEN 10000000 ELSE 100000000
Coarse(c, k) == k <= 8 /\ c * Pow10(8 - k) > 3
EpsHi(e, it, M) == IF Coarse(M + 1, it.k) THEN (Uof(e) * (M + 1)) \div it.ginv + 1 ELSE 1
EpsLo(e, it, M) == IF Coarse(M + 2, it.k) THEN -(((Uof(e) * (M + 2) + it.ginv - 1) \div it.ginv) - 1) ELSE 1

\* events carrying `sat`: saturating distribution, recorded numerators clamped at the same cap by the recorder
PvIterOK(D, e, it, M) ==
  LET sat == "sat" \in DOMAIN e
      eps == "eps" \in DOMAIN e
      TWp(P(_)) == IF sat THEN TailWhereSat(D, P, e.sat) ELSE TailWhere(D, P)
      lo == IF eps THEN TWp(LAMBDA w : w - e.s8 >= EpsHi(e, it, M)) ELSE TWp(LAMBDA w : (w - e.s8) * it.ginv >= Uof(e) * (M + 1))
      hi == IF eps THEN TWp(LAMBDA w : w - e.s8 >= EpsLo(e, it, M)) ELSE TWp(LAMBDA w : (w - e.s8) * it.ginv >= -(Uof(e) * (M + 2)))
      sl == IF it.exact = 1 THEN 0 ELSE 1
  IN /\ 0 <= it.pmin /\ it.pmin <= it.pmax /\ it.pmax <= (IF sat THEN e.sat ELSE e.den) + sl
     /\ lo - sl <= it.pmin
     /\ it.pmax <= hi + sl

\* The recorded findings C12- / C13-wildcard-column-not-a-symbol have one exact shape: TFM-PVALUE enumerates words over
\* the K-1 regular symbols only, so when the wildcard has finite scores AND a background frequency its answers are those
\* of the distribution WITHOUT the words holding a wildcard.  An event that fails against the exact tail but is consistent
\* with that distribution is the finding; one that fails against both is something else.
\* (Dist!ConvDist ranges over the first K-1 columns; events whose wildcard is scored carry it as column K-1 followed by an
\* always -inf column K, so the distribution without the wildcard is simply the one over the first K-2 columns)
DistOf(e, K2) == IF "sat" \in DOMAIN e THEN ConvDistSat(Double(e.pssm), e.bn, K2, e.sat) ELSE ConvDist(Double(e.pssm), e.bn, K2)
IsWildFinding(e) == "wild" \in DOMAIN e /\ e.wild = "finite_scores_and_frequency"

ApplyPv(s, e) ==
  LET M == Len(e.pssm)
      D == IF "sat" \in DOMAIN e THEN ConvDistSat(Double(e.pssm), e.bn, e.K, e.sat) ELSE ConvDist(Double(e.pssm), e.bn, e.K)
      bad == {q \in 1..Len(e.iters) : ~PvIterOK(D, e, e.iters[q], M)}
      D2 == DistOf(e, e.K - 1)
      asregular == bad # {} /\ IsWildFinding(e) /\ \A q \in 1..Len(e.iters) : PvIterOK(D2, e, e.iters[q], M)
      progress == Len(e.iters) >= 1 /\ \A q \in 1..Len(e.iters) : e.iters[q].k = q
      \* fidelity of the I-layer model (advisory): some admissible row permutation makes Tfm!LookupPv reproduce the
      \* logged range of every coarse iteration exactly (only for exact numerators and the first granularity 1/10; 1/100 is covered by MC_Tfm)
      fid == \A q \in 1..Len(e.iters) :
               (e.iters[q].ginv <= 10 /\ e.iters[q].exact = 1 /\ "sat" \notin DOMAIN e /\ "eps" \notin DOMAIN e) =>
                 \E pm \in Perms(e.pssm, e.K) :
                    LookupPv(e.pssm, pm, e.bn, e.bd, e.K, e.iters[q].ginv, e.G, e.s8, FALSE) = <<e.iters[q].pmin, e.iters[q].pmax>>
  IN [ok |-> progress /\ bad = {}, st |-> s,
      note |-> IF progress /\ bad = {} /\ ~fid THEN "TFM-PVALUE look-up differs from the I-layer model Tfm!LookupPv" ELSE "",
      exp |-> [why |-> IF ~progress THEN "no_iteration"
                       ELSE IF asregular THEN "pvalue_range_is_that_of_the_words_without_wildcard"
                       ELSE "pvalue_range_outside_exact_tail_bounds",
               detail |-> IF bad = {} THEN <<>> ELSE
                  LET q == CHOOSE q \in bad : TRUE  it == e.iters[q] IN
                  IF "eps" \in DOMAIN e THEN <<it.k, it.pmin, it.pmax, EpsHi(e, it, M), EpsLo(e, it, M)>>
                  ELSE <<it.k, it.pmin, it.pmax,
                    TailWhere(D, LAMBDA w : (w - e.s8) * it.ginv >= Uof(e) * (M + 1)),
                    TailWhere(D, LAMBDA w : (w - e.s8) * it.ginv >= -(Uof(e) * (M + 2)))>>]]

\* w/U >= tk/ginv + c/ginv  <=>  w * ginv >= U (tk + c)
\* events with a field `sat` use the saturating distribution (numerators capped at e.sat; p = pn / (pc den) with pn < cap)
IsSat(e) == "sat" \in DOMAIN e
ScIterOK(D, e, it, M) ==
  LET d == M + 2
      U == Uof(e)
      TW(P(_)) == IF IsSat(e) THEN TailWhereSat(D, P, e.sat) ELSE TailWhere(D, P)
      above == TW(LAMBDA w : w * it.ginv >= U * (it.tk + d))
      \* attainable scores strictly below t - d
      below == {w \in Attainable(D) : w * it.ginv < U * (it.tk - d)}
      \* p = pn / (pc den) for the sweep over attainable tails and midpoints (pc in {1, 2}), pn / pd otherwise
      le(x) == IF e.pc > 0 THEN x * e.pc <= e.pn ELSE x * e.pd <= e.pn * e.den     \* x / den <= p
      ge(x) == IF e.pc > 0 THEN x * e.pc >= e.pn ELSE x * e.pd >= e.pn * e.den     \* x / den >= p
  IN /\ le(above)
     /\ below # {} =>
          LET u == SetMax(below) IN ge(TW(LAMBDA w : (w - u) * it.ginv >= -(U * d)))

ApplySc(s, e) ==
  LET M == Len(e.pssm)
      D == IF IsSat(e) THEN ConvDistSat(Double(e.pssm), e.bn, e.K, e.sat) ELSE ConvDist(Double(e.pssm), e.bn, e.K)
      bad == {q \in 1..Len(e.iters) : ~ScIterOK(D, e, e.iters[q], M)}
      progress == Len(e.iters) >= 1 /\ \A q \in 1..Len(e.iters) : e.iters[q].k = q /\ e.iters[q].offgrid = 0
      D2 == DistOf(e, e.K - 1)
      asregular == bad # {} /\ IsWildFinding(e) /\ \A q \in 1..Len(e.iters) : ScIterOK(D2, e, e.iters[q], M)
  IN [ok |-> progress /\ bad = {}, st |-> s,
      exp |-> [why |-> IF ~progress THEN "no_iteration_or_threshold_not_a_multiple_of_the_granularity"
                       ELSE IF asregular THEN "threshold_is_that_of_the_words_without_wildcard"
                       ELSE "threshold_inconsistent_with_exact_tail",
               detail |-> IF bad = {} THEN <<>> ELSE LET q == CHOOSE q \in bad : TRUE IN <<e.iters[q].k, e.iters[q].tk, e.iters[q].ginv>>]]

Apply(s, e) ==
  IF e.ret # "ok" THEN [ok |-> FALSE, st |-> s, exp |-> [why |-> "panic"]]
  ELSE IF e.ev = "tfm_pvalue" THEN ApplyPv(s, e) ELSE ApplySc(s, e)

TK == INSTANCE TraceKit
Spec == TK!TKSpec
Post == TK!TKPost
=============================================================================
