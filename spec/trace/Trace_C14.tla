----------------------------- MODULE Trace_C14 -----------------------------
(***************************************************************************)
(* Trace validation for C14: rd_new (format, abstract motifs the file was  *)
(* rendered from, chunk schedule) followed by rd_next outcomes; every      *)
(* outcome must be the enabled A-layer action of Reader.tla.  rd_same:     *)
(* a bundled file read under three chunk schedules gives the same list.    *)
(***************************************************************************)
EXTENDS Reader, TLC, Json, IOUtils

VARIABLES l, st

Rec == ndJsonDeserialize(IOEnv.TRACE)
InitState == [todo |-> <<>>, live |-> FALSE, fmt |-> "", K |-> 0]

Apply(s, e) ==
  CASE e.ev = "rd_new" ->
         IF e.ret = "ok" THEN [ok |-> TRUE, st |-> [todo |-> e.motifs, live |-> TRUE, fmt |-> e.fmt, K |-> e.K], exp |-> 0]
         ELSE [ok |-> FALSE, st |-> s, exp |-> [why |-> "constructor_panicked"]]
    [] e.ev = "rd_same" ->
         [ok |-> e.ret = "ok" /\ e.a = e.b /\ e.a = e.c /\ e.n >= 2, st |-> s, exp |-> [why |-> "result_depends_on_chunking"]]
    [] e.ev = "rd_next" ->
         IF e.ret = "record"
         THEN LET ok == s.live /\ s.todo # <<>> /\ RecordOK(s.fmt, Head(s.todo), e.rec, s.K) IN
              [ok |-> ok, st |-> IF ok THEN [s EXCEPT !.todo = Tail(s.todo)] ELSE s,
               note |-> IF ok /\ ~RefsOK(Head(s.todo), e.rec) THEN "TRANSFAC references differ from the RN/RX/RT/RL blocks of the file" ELSE "",
               exp |-> IF s.todo = <<>> THEN [why |-> "extra_record"]
                       ELSE [why |-> "record_differs", id |-> Head(s.todo).id, left |-> Len(s.todo),
                             m |-> ExpectedMatrix(Head(s.todo), s.K, "0")]]
         ELSE IF e.ret = "none"
         THEN [ok |-> s.live /\ s.todo = <<>>, st |-> [s EXCEPT !.live = FALSE],
               exp |-> [why |-> "records_lost", left |-> Len(s.todo)]]
         ELSE [ok |-> FALSE, st |-> s, exp |-> [why |-> e.ret, left |-> Len(s.todo)]]

TK == INSTANCE TraceKit
Spec == TK!TKSpec
Post == TK!TKPost
=============================================================================
