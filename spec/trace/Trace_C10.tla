----------------------------- MODULE Trace_C10 -----------------------------
(***************************************************************************)
(* Trace validation for C10.                                               *)
(*  rc          cell-wise: out = Pwm!RC(m), applying it twice gives m      *)
(*  rc_commute  rc(convert(m)) and convert(rc(m)) are both the exact       *)
(*              conversion of RC(m) (strand-symmetric pseudocounts and     *)
(*              background), for frequencies, weights and log-odds; two    *)
(*              reverse complements give the original object back (cells,  *)
(*              background, ==) and the background is carried along        *)
(*  rc_score    the reverse-complemented matrix scores position L-M-i of   *)
(*              the reverse-complemented sequence as the matrix scores i   *)
(***************************************************************************)
EXTENDS Pwm, TLC, Json, IOUtils

VARIABLES l, st

Rec == ndJsonDeserialize(IOEnv.TRACE)
InitState == 0
Q12 == 4096
IsNum(q) == q > -1073741000 /\ q < 1073741000

\* conversions of the reverse-complemented count matrix, checked on a quantised matrix q
FreqOf(c, e, q) == \A i \in 1..Len(c) : \A k \in 1..5 :
   IsNum(q[i][k]) /\ QNear(q[i][k], FreqNum(c[i], e.pn, e.pd, k), FreqDen(c[i], e.pn, e.pd, 5), Q12, 1)
WeightOf(c, e, q) == \A i \in 1..Len(c) : \A k \in 1..5 :
   IF e.bn[k] = 0 THEN q[i][k] = 0
   ELSE IsNum(q[i][k]) /\ LET w == WeightRat(FreqNum(c[i], e.pn, e.pd, k), FreqDen(c[i], e.pn, e.pd, 5), e.bn, e.bd, k)
                          IN QNear(q[i][k], w[1], w[2], Q12, 2)
ScoreOf2(c, e, q) == \A i \in 1..Len(c) : \A k \in 1..5 :
   IF e.bn[k] = 0 \/ FreqNum(c[i], e.pn, e.pd, k) = 0 THEN q[i][k] = NINF
   ELSE IsNum(q[i][k]) /\ LET w == WeightRat(FreqNum(c[i], e.pn, e.pd, k), FreqDen(c[i], e.pn, e.pd, 5), e.bn, e.bd, k)
                              r == Shrink(w[1], w[2])
                          IN Abs(q[i][k] - Log2Fx(r[1], r[2])) <= 6
Near(a, b, tol) == Len(a) = Len(b) /\ \A i \in 1..Len(a) : \A k \in 1..5 :
   (a[i][k] = b[i][k]) \/ (IsNum(a[i][k]) /\ IsNum(b[i][k]) /\ Abs(a[i][k] - b[i][k]) <= tol)

Apply(s, e) ==
  IF e.ret = "panic" THEN [ok |-> FALSE, st |-> s, exp |-> [why |-> "panic"]]
  ELSE
  CASE e.ev = "rc" ->
         [ok |-> e.out = RC(e.m) /\ e.out2 = e.m, st |-> s,
          exp |-> [why |-> IF e.out # RC(e.m) THEN "not_the_reverse_complement" ELSE "not_an_involution", kind |-> e.kind]]
    [] e.ev = "rc_commute" ->
         LET c == RC(e.m)
             f == Len(e.af) = Len(c) /\ Len(e.bf) = Len(c) /\ FreqOf(c, e, e.af) /\ FreqOf(c, e, e.bf) /\ Near(e.af, e.bf, 2)
             w == Len(e.aw) = Len(c) /\ Len(e.bw) = Len(c) /\ WeightOf(c, e, e.aw) /\ WeightOf(c, e, e.bw) /\ Near(e.aw, e.bw, 3)
             sc == Len(e.as) = Len(c) /\ Len(e.bs) = Len(c) /\ ScoreOf2(c, e, e.as) /\ ScoreOf2(c, e, e.bs) /\ Near(e.as, e.bs, 2)
             \* the objects, not only their cells: rc(rc(x)) is x again (cells, background, ==), and under a
             \* strand-symmetric background the reverse-complemented weight / scoring matrix carries that background
             inv == e.w2 = e.w0 /\ e.s2 = e.s0 /\ e.w2eq /\ e.s2eq
             bgok == Len(e.bgs) = 4 /\ \A j \in 1..4 : \A k \in 1..5 : QNear(e.bgs[j][k], e.bn[k], e.bd, Q12, 1)
         IN [ok |-> f /\ w /\ sc /\ inv /\ bgok, st |-> s,
             exp |-> [why |-> IF ~f THEN "freq_commute" ELSE IF ~w THEN "weight_commute" ELSE IF ~sc THEN "score_commute"
                              ELSE IF ~inv THEN "not_an_involution" ELSE "background_lost"]]
    [] e.ev = "rc_score" ->
         LET L == Len(e.seq)  M == Len(e.m)  n == NScores(L, M)
             a == e.seq2 = RCSeq(e.seq)
             b == e.o1 = [i \in 1..n |-> WindowScore(e.m, e.seq, i - 1, 4)]
             c == Len(e.o2) = n /\ \A i \in 0..(n - 1) : e.o2[(L - M - i) + 1] = e.o1[i + 1]
             \* the single-position entry point (ScoringMatrix::score_position) gives the same values on both strands
             d == e.p1 = e.o1 /\ e.p2 = e.o2
             \* ... and read from the back (the recorder compares iter().rev(), reversed, with the forward list of each strand)
         IN [ok |-> a /\ b /\ c /\ d /\ e.back_ok, st |-> s,
             exp |-> [why |-> IF ~a THEN "sequence_reverse_complement" ELSE IF ~b THEN "forward_scores" ELSE IF ~c THEN "mirrored_scores"
                              ELSE IF ~d THEN "score_position_differs" ELSE "backward_iteration_differs"]]

TK == INSTANCE TraceKit
Spec == TK!TKSpec
Post == TK!TKPost
=============================================================================
