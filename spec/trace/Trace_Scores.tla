---------------------------- MODULE Trace_Scores ----------------------------
(***************************************************************************)
(* Trace validation for the StripedScores object: every recorded operation *)
(* on a real StripedScores<T, C> must be the step spec/Scores.tla          *)
(* prescribes - the whole table and the recorded length after every call,  *)
(* and the observation returned (lengths, linear view through unstripe /   *)
(* Vec::from / iter / rev, indexed cells, offsets, yields of one iterator  *)
(* driven from both ends, maximum with an arg-maximum that holds it,       *)
(* threshold offsets in increasing order).                                 *)
(***************************************************************************)
EXTENDS Scores, TLC, Json, IOUtils

VARIABLES l, st

Rec == ndJsonDeserialize(IOEnv.TRACE)

InitState == [C |-> 0, s |-> ScoresInit]

Apply(s, e) ==
  IF e.ev = "scores_cfg"
  THEN [ok |-> TRUE, st |-> [C |-> e.C, s |-> ScoresInit], exp |-> 0]
  ELSE
    LET o == e.o IN
    IF ~ScoresInContract(s.s, o, s.C)
    THEN [ok |-> FALSE, st |-> s, exp |-> "driver issued an out-of-contract call"]
    ELSE
      LET r == ScoresStep(s.s, o, s.C)
          good == /\ e.ret = "ok"
                  /\ e.post.m = r.st.m
                  /\ e.post.nv = NValid(r.st, s.C)       \* the recorded length as far as any property can see it
                  /\ e.dev = "none"          \* cross-checks of the recorder on the object itself (see devinfo)
                  /\ e.obs = r.obs
      IN [ok |-> (e.ret = "ok") /\ good,
          st |-> [s EXCEPT !.s = r.st],
          exp |-> [m |-> r.st.m, nv |-> NValid(r.st, s.C), obs |-> r.obs]]

TK == INSTANCE TraceKit
Spec == TK!TKSpec
Post == TK!TKPost
=============================================================================
