----------------------------- MODULE Trace_C04 -----------------------------
(***************************************************************************)
(* Trace validation for C04: after every recorded stripe / stripe_into /   *)
(* configure_wrap / configure call on one StripedSequence buffer the       *)
(* logged matrix, length, look-ahead count, sampled Index results and      *)
(* symbol counts must satisfy Striped!ObsOK for the A-layer state.         *)
(***************************************************************************)
EXTENDS Striped, TLC, Json, IOUtils

VARIABLES l, st

Rec == ndJsonDeserialize(IOEnv.TRACE)

InitState == [C |-> 0, K |-> 0, a |-> StripedInit]

Apply(s, e) ==
  IF e.ev = "stripe_cfg"
  THEN [ok |-> TRUE, st |-> [C |-> e.C, K |-> e.K, a |-> StripedInit], exp |-> 0]
  ELSE
    LET a2 == StripedStep(s.a, e.o) IN
    IF e.ret # "ok"
    THEN [ok |-> FALSE, st |-> s, exp |-> [why |-> "panic"]]
    ELSE LET p == [e.post EXCEPT !.counts = IF e.post.counts = <<>> THEN Counts(a2.seq, s.K) ELSE e.post.counts]
             ok == ObsOK(a2, p, s.C, s.K) /\ (e.post.counts1 = <<>> \/ e.post.counts1 = e.post.counts)
         IN [ok |-> ok,
             st |-> [s EXCEPT !.a = a2],
             exp |-> [why |-> Why(a2, p, s.C, s.K), len |-> Len(a2.seq), min_wrap |-> a2.req,
                      seq_rows |-> NRows(Len(a2.seq), s.C)],
             note |-> IF ok /\ ~DeepWrapOK(a2, p, s.C, s.K - 1) THEN "look-ahead rows deeper than the sequence rows do not continue the shift relation" ELSE ""]

TK == INSTANCE TraceKit
Spec == TK!TKSpec
Post == TK!TKPost
=============================================================================
