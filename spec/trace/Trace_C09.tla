----------------------------- MODULE Trace_C09 -----------------------------
(***************************************************************************)
(* Trace validation for C09.  Events (each independent):                   *)
(*  counts        from_sequences: exact counts, unequal lengths rejected   *)
(*  to_freq       (count + pseudo) / row total, rows sum to one            *)
(*  to_weight     frequency / background, exactly 0 where background = 0   *)
(*  to_scoring    log_base(weight) through every route, -inf where the     *)
(*                background is 0 or the weight is 0; min/max score are    *)
(*                the sums of row minima / maxima over non-wildcard cells  *)
(*  rescale       weights under the new background; rescale_chain: a       *)
(*                history of rescales ends under the last background       *)
(*  bg_new, bg_from_counts, freq_new   validity checks                     *)
(* Values are logged as round(x * 4096) (frequencies, weights) or          *)
(* round(x * 1024) (scores); sentinels mark -inf / +inf / NaN.             *)
(***************************************************************************)
EXTENDS Pwm, TLC, Json, IOUtils

VARIABLES l, st

Rec == ndJsonDeserialize(IOEnv.TRACE)
InitState == 0

Q12 == 4096
IsNum(q) == q > -1073741000 /\ q < 1073741000

Fn(e, i, k) == FreqNum(e.m[i], e.pn, e.pd, k)
Fd(e, i)    == FreqDen(e.m[i], e.pn, e.pd, e.K)
Shape(e)    == Len(e.q) = Len(e.m) /\ \A i \in 1..Len(e.q) : Len(e.q[i]) = e.K

FreqOK(e) ==
  /\ Shape(e)
  /\ \A i \in 1..Len(e.m) :
       /\ \A k \in 1..e.K : IsNum(e.q[i][k]) /\ QNear(e.q[i][k], Fn(e, i, k), Fd(e, i), Q12, 1)
       /\ Abs(PlainSum(e.q[i], e.K) - Q12) <= e.K

\* optional per-symbol binary shift of the background: frequency of k = bn[k] / (bd * 2^bsh[k]) (very small, non-zero
\* frequencies, whose weights leave the 32-bit grid: only "zero exactly when the frequency is zero" is checked there)
Bsh(e, k) == IF "bsh" \in DOMAIN e THEN e.bsh[k] ELSE 0
WeightCellOK(q, fnum, fden, bn, bd, k, sh) ==
  IF bn[k] = 0 THEN q = 0
  ELSE IF sh > 0 THEN (q = 0) = (fnum = 0) /\ q >= 0
  ELSE IsNum(q) /\ LET w == WeightRat(fnum, fden, bn, bd, k) IN QNear(q, w[1], w[2], Q12, 2)
WeightOK(e, bn, bd) ==
  /\ Shape(e)
  /\ \A i \in 1..Len(e.m) : \A k \in 1..e.K : WeightCellOK(e.q[i][k], Fn(e, i, k), Fd(e, i), bn, bd, k, Bsh(e, k))
\* What the code does, named: rescale multiplies the stored weights by old/new background, so a column that was zeroed
\* under an earlier background with frequency 0 stays 0 (the frequencies are no longer known), whatever comes later.
ZeroedBefore(e, k) == e.bn[k] = 0 \/ ("chain" \in DOMAIN e /\ \E c \in 1..Len(e.chain) : e.chain[c][k] = 0)
RescaleOK(e, bn, bd) ==
  /\ Shape(e)
  /\ \A i \in 1..Len(e.m) : \A k \in 1..e.K :
        IF ZeroedBefore(e, k) THEN e.q[i][k] = 0 ELSE WeightCellOK(e.q[i][k], Fn(e, i, k), Fd(e, i), bn, bd, k, 0)

ScoreCellOK(q, fnum, fden, bn, bd, k, basen, based, sh) ==
  IF bn[k] = 0 \/ fnum = 0 THEN q = NINF
  ELSE /\ IsNum(q)
       /\ LET w == WeightRat(fnum, fden, bn, bd, k)
              r == Shrink(w[1], w[2])
              shift == (sh * 1024 * 1024) \div (Lg(basen) - Lg(based))     \* log_base(2^sh)
          IN Abs(q - (LogBaseFx(r[1], r[2], basen, based) + shift)) <= 6
ScoringOK(e) ==
  /\ Shape(e)
  /\ \A i \in 1..Len(e.m) : \A k \in 1..e.K :
        ScoreCellOK(e.q[i][k], Fn(e, i, k), Fd(e, i), e.bn, e.bd, k, e.basen, e.based, Bsh(e, k))
\* -inf cells (a regular symbol with background frequency 0): a wildcard-free window through such a cell scores -inf, so
\* the reported minimum must be -inf too; the maximum is the sum of the row maxima over the finite cells (-inf when a
\* row has none)
MinMaxOK(e) ==
  LET NK == e.K - 1
      fin == \A i \in 1..Len(e.q) : \A k \in 1..NK : IsNum(e.q[i][k])
      someinf == \E i \in 1..Len(e.q) : \E k \in 1..NK : e.q[i][k] = NINF
      alln == \A i \in 1..Len(e.q) : \A k \in 1..NK : IsNum(e.q[i][k]) \/ e.q[i][k] = NINF
      deadrow == \E i \in 1..Len(e.q) : \A k \in 1..NK : e.q[i][k] = NINF
      rowmax(i) == SetMax({e.q[i][k] : k \in {j \in 1..NK : e.q[i][j] # NINF}})
  IN /\ fin => /\ Abs(e.min - MinScoreOf(e.q, e.K)) <= Len(e.q) + 1
              /\ Abs(e.max - MaxScoreOf(e.q, e.K)) <= Len(e.q) + 1
     /\ (alln /\ someinf /\ Len(e.q) > 0) =>
              /\ e.min = NINF
              /\ IF deadrow THEN e.max = NINF
                 ELSE Abs(e.max - PlainSum([i \in 1..Len(e.q) |-> rowmax(i)], Len(e.q))) <= Len(e.q) + 1

Apply(s, e) ==
  IF e.ret = "panic" THEN [ok |-> FALSE, st |-> s, exp |-> [why |-> "panic"]]
  ELSE
  CASE e.ev = "counts" ->
         LET eq == EqualLengths(e.seqs)
             M  == IF Len(e.seqs) = 0 THEN 0 ELSE Len(e.seqs[1])
         IN [ok |-> IF eq THEN e.ret = "ok" /\ e.m = CountsOf(e.seqs, M, e.K) ELSE e.ret = "err",
             st |-> s, exp |-> [why |-> IF eq THEN "wrong_counts" ELSE "unequal_lengths_accepted"]]
    [] e.ev = "to_freq"   -> [ok |-> FreqOK(e), st |-> s, exp |-> [why |-> "frequency"]]
    [] e.ev = "to_weight" -> [ok |-> WeightOK(e, e.bn, e.bd), st |-> s, exp |-> [why |-> "weight"]]
    [] e.ev = "rescale"   -> [ok |-> RescaleOK(e, e.bn2, e.bd2), st |-> s, exp |-> [why |-> "rescale"]]
    [] e.ev = "rescale_chain" ->
         \* a history of rescales on one weight matrix ends with the weights, the reported background and the
         \* log-odds of the LAST background
         LET a == RescaleOK(e, e.bn2, e.bd2)
             b == \A k \in 1..e.K : QNear(e.bgq[k], e.bn2[k], e.bd2, Q12, 1)
             c == Len(e.s) = Len(e.m) /\ \A i \in 1..Len(e.m) : \A k \in 1..e.K :
                    IF ZeroedBefore(e, k) THEN e.s[i][k] = NINF
                    ELSE ScoreCellOK(e.s[i][k], Fn(e, i, k), Fd(e, i), e.bn2, e.bd2, k, 2, 1, 0)
         IN [ok |-> a /\ b /\ c, st |-> s,
             exp |-> [why |-> IF ~a THEN "rescale_chain_weights" ELSE IF ~b THEN "rescale_chain_reported_background" ELSE "rescale_chain_log_odds"]]
    [] e.ev = "to_scoring" ->
         LET a == ScoringOK(e)  b == MinMaxOK(e) IN
         [ok |-> a /\ b, st |-> s, exp |-> [why |-> IF ~a THEN "log_odds" ELSE "min_max_score"]]
    [] e.ev = "bg_new" ->
         LET v == BgValid(e.fn, e.fd, e.K) IN
         [ok |-> v \/ e.ret = "err", st |-> s, exp |-> [why |-> "invalid_background_accepted"],
          note |-> IF v /\ e.ret = "err" THEN "a valid (decimal) background was rejected by the exact sum == 1.0 test" ELSE ""]
    [] e.ev = "bg_from_counts" ->
         LET tot == PlainSum(e.counts, Len(e.counts)) IN
         [ok |-> IF tot = 0 THEN e.ret = "err"
                 ELSE e.ret = "ok" /\ \A k \in 1..Len(e.counts) : QNear(e.q[k], e.counts[k], tot, Q12, 1),
          st |-> s, exp |-> [why |-> "background_from_counts"]]
    [] e.ev = "freq_new" ->
         LET bad == \E i \in 1..Len(e.rows) : RowClearlyInvalid(e.rows[i], e.rd, e.K)
             good == \A i \in 1..Len(e.rows) : PlainSum(e.rows[i], e.K) = e.rd
         IN [ok |-> (bad => e.ret = "err") /\ (good => e.ret = "ok"), st |-> s, exp |-> [why |-> "frequency_matrix_validation"]]

TK == INSTANCE TraceKit
Spec == TK!TKSpec
Post == TK!TKPost
=============================================================================
