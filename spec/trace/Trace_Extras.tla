---------------------------- MODULE Trace_Extras ----------------------------
(***************************************************************************)
(* Trace validation of behaviour beyond the listed properties (advisory:   *)
(* rejections are reported as EXTRA-DEVIATION by `./check extras`).        *)
(***************************************************************************)
EXTENDS Extras, Scanner, Striped, Scores, TLC, Json, IOUtils

VARIABLES l, st

Rec == ndJsonDeserialize(IOEnv.TRACE)
InitState == 0
Q12 == 4096
Res(ok, why) == [ok |-> ok, st |-> 0, exp |-> [why |-> why]]
Rev(s) == [i \in 1..Len(s) |-> s[Len(s) + 1 - i]]

Apply(s, e) ==
  IF e.ret = "panic" THEN Res(FALSE, "panic")
  ELSE
  CASE e.ev = "bg_from_seqs" ->
         LET c == BgCounted(e.seqs, e.K, e.unknown)  tot == PlainSum(c, e.K) IN
         Res(IF tot = 0 THEN e.ret = "err"
             ELSE e.ret = "ok" /\ \A k \in 1..e.K : QNear(e.q[k], c[k], tot, Q12, 1), "background_from_sequences")
    [] e.ev = "consensus" ->
         \* letters as ranks, `lower` flags; a row with total 0 is skipped by the driver
         Res(/\ Len(e.sym) = Len(e.m)
             /\ \A i \in 1..Len(e.m) :
                  /\ \A k \in 1..e.K : e.m[i][k] <= e.m[i][e.sym[i] + 1]
                  /\ LET h == EntropyScaled(e.m[i], e.K)  n == RowTotal(e.m[i], e.K) IN
                       /\ (h > 1044 * n => e.lower[i])           \* clearly above one bit
                       /\ (h < 1004 * n => ~e.lower[i]),          \* clearly below one bit
             "consensus")
    [] e.ev = "entropy" ->
         Res(\A i \in 1..Len(e.m) :
               LET n == RowTotal(e.m[i], e.K) IN Abs(e.q[i] * n - EntropyScaled(e.m[i], e.K)) <= 6 * n, "entropy")
    [] e.ev = "correlation" ->
         Res(Abs(e.auto0 - Q12) <= 2 /\ Abs(e.cross_self - Q12) <= 2 /\ \A d \in 1..Len(e.autos) : Abs(e.autos[d]) <= Q12 + 2, "correlation")
    [] e.ev = "sample" ->
         Res(/\ Len(e.seq) = e.len
             /\ \A i \in 1..Len(e.seq) : e.bn[e.seq[i] + 1] > 0
             /\ (e.kind = "striped" => e.rows = StripedData(e.seq, e.C, 0, e.K - 1)), "sample")
    [] e.ev = "scores_iter" ->
         Res(e.rev = Rev(e.fwd) /\ e.len = Len(e.fwd) /\ e.len_after_one = (IF Len(e.fwd) = 0 THEN 0 ELSE Len(e.fwd) - 1), "striped_scores_iterator")
    [] e.ev = "hit_order" ->
         \* e.hits = <<score, pos>> pairs, e.sorted = the library's ascending order of them
         Res(/\ Len(e.sorted) = Len(e.hits)
             /\ \A i \in 1..(Len(e.sorted) - 1) :
                  \/ e.sorted[i][1] < e.sorted[i + 1][1]
                  \/ (e.sorted[i][1] = e.sorted[i + 1][1] /\ e.sorted[i][2] <= e.sorted[i + 1][2])
             /\ {e.sorted[i] : i \in 1..Len(e.sorted)} = {e.hits[i] : i \in 1..Len(e.hits)}, "hit_order")
    [] e.ev = "scores_accessors" ->
         \* the accessors of spec/Scores.tla after resize(r, mi) on a used object
         LET st2 == ScoresStep(ScoresInit, [op |-> "resize", r |-> e.r, mi |-> e.mi], 32).st IN
         Res(/\ e.is_empty = (ScoresStep(st2, [op |-> "is_empty"], 32).obs = 1)
             /\ e.max_index = ScoresStep(st2, [op |-> "max_index"], 32).obs
             /\ e.default_empty, "striped_scores_accessors")
    [] e.ev = "alphabet" -> Res(AlphabetOK(e), "alphabet")
    [] e.ev = "info_content" ->
         LET x == InfoContent(e.m, e.pn, e.pd, e.K) IN
         Res(e.ic > -1073741000 /\ e.ic < 1073741000 /\ Abs(e.ic - x) <= 6 * Len(e.m) + 8, "information_content")
    [] e.ev = "scanner_defaults" ->
         LET W == e.K - 1
             n == NScores(Len(e.seq), Len(e.pssm))
             q == {i \in 0..(n - 1) : WindowScore(e.pssm, e.seq, i, W) >= e.thr}
         IN Res(/\ {e.hits[j][1] : j \in 1..Len(e.hits)} = q /\ Len(e.hits) = Cardinality(q)
                /\ \A j \in 1..Len(e.hits) : e.hits[j][2] = WindowScore(e.pssm, e.seq, e.hits[j][1], W), "scanner_defaults")
    [] e.ev = "sequence_api" ->
         LET L == Len(e.seq) IN
         Res(/\ e.len = L /\ e.slen = L /\ e.empty = (L = 0) /\ e.sempty = (L = 0)
             /\ e.iter = e.seq /\ e.by_index = e.seq /\ e.text_back /\ e.parse_same /\ e.from_vec_same
             /\ e.wrap >= e.w /\ e.rows = NRows(L, e.C) + e.wrap, "sequence_container_api")
    [] e.ev = "scale_bracket" ->
         \* for every probed score x (grid): unscale(scale(x)) <= x, and x < unscale(scale(x) + 1) unless saturated
         \* (clamped images 0 and 255 are excluded: the score is then outside the matrix's range)
         Res(\A i \in 1..Len(e.x) : e.b[i] \in {0, 255} \/ (e.lo[i] <= e.x[i] + 1 /\ e.x[i] <= e.hi[i] + 1), "scale_unscale_bracket")

TK == INSTANCE TraceKit
Spec == TK!TKSpec
Post == TK!TKPost
=============================================================================
