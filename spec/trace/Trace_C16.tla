----------------------------- MODULE Trace_C16 -----------------------------
(***************************************************************************)
(* Trace validation for C16.  A history is one sampling run: smp_new (data *)
(* set, width, mode, observation of the initial alignment), then one       *)
(* smp_step per iteration (held-out index z, step counter, the counts      *)
(* reported with the iteration, observation of the alignment afterwards),  *)
(* then smp_det (the same run executed twice gave identical traces).       *)
(* Every reported quantity is recomputed from the logged data set and      *)
(* alignment by the operators of Sampler.tla.                              *)
(***************************************************************************)
EXTENDS Sampler, TLC, Json, IOUtils

VARIABLES l, st

Rec == ndJsonDeserialize(IOEnv.TRACE)
InitState == [data |-> <<>>, cnt |-> <<>>, w |-> 0, K |-> 0, mode |-> "", active |-> <<>>, starts |-> <<>>, step |-> 0]

Abs(x) == IF x < 0 THEN -x ELSE x

\* observation p = [active, starts, motif, bg (round(f * 2^16)), n]
ObsWhy(data, cnt, w, K, p) ==
  IF ~StartsInRange(data, w, p.active, p.starts) THEN "start_outside_sequence"
  ELSE IF p.motif # MotifOf(data, w, K, p.active, p.starts, -1) THEN "motif_is_not_the_window_counts"
  ELSE LET bc == BgCountsFrom(cnt, data, w, K, p.active, p.starts)     \* = BgCountsOf(data, ...) (MC_Sampler: BgSame)
           tot == PlainSum(bc, K)
           \* bg[k] = round(f * 2^16): exact cross-multiplication while it fits 32 bits, otherwise (data sets with tens of
           \* thousands of symbols) against the quotient at 12 bits, 40 / 65536 of slack
           off(k) == IF tot < 30000 THEN Abs(p.bg[k] * tot - bc[k] * 65536) > tot
                     ELSE Abs(p.bg[k] - 16 * ((bc[k] * 4096) \div tot)) > 40
       IN IF tot > 0 /\ \E k \in 1..K : off(k)
          THEN "background_is_not_the_outside_counts"
          ELSE "ok"

Apply(s, e) ==
  IF e.ret # "ok" THEN [ok |-> FALSE, st |-> s, exp |-> [why |-> "panic"]]
  ELSE
  CASE e.ev = "smp_new" ->
         LET cnt == DataCounts(e.data, e.K)
             why == ObsWhy(e.data, cnt, e.w, e.K, e.post) IN
         [ok |-> why = "ok" /\ (e.mode = "oops" => Len(e.post.active) = Len(e.data)),
          st |-> [data |-> e.data, cnt |-> cnt, w |-> e.w, K |-> e.K, mode |-> e.mode, active |-> e.post.active, starts |-> e.post.starts, step |-> 0],
          exp |-> [why |-> why]]
    [] e.ev = "smp_step" ->
         LET why == ObsWhy(s.data, s.cnt, s.w, s.K, e.post)
             iter == MotifOf(s.data, s.w, s.K, s.active, s.starts, e.z)
             stepok == e.step = s.step
             rel == why = "ok" /\ StepOK(s.mode, Len(s.data), e.z, s.active, s.starts, e.post.active, e.post.starts)
         IN [ok |-> why = "ok" /\ stepok /\ e.iter_counts = iter /\ rel,
             st |-> [s EXCEPT !.active = e.post.active, !.starts = e.post.starts, !.step = s.step + 1],
             exp |-> [why |-> IF why # "ok" THEN why ELSE IF ~stepok THEN "step_counter"
                              ELSE IF e.iter_counts # iter THEN "iteration_counts_are_not_the_alignment_without_z"
                              ELSE "another_sequence_changed",
                      step |-> s.step]]
    [] e.ev = "smp_end" -> [ok |-> s.mode = "zoops", st |-> s, exp |-> [why |-> "oops_run_ended"]]
    [] e.ev = "smp_det" -> [ok |-> e.same, st |-> s, exp |-> [why |-> "two_runs_with_the_same_seed_differ"]]

TK == INSTANCE TraceKit
Spec == TK!TKSpec
Post == TK!TKPost
=============================================================================
