-------------------------------- MODULE Reduce --------------------------------
(***************************************************************************)
(* C07 - maximum, arg-maximum and thresholding of striped scores           *)
(* (pli/mod.rs Maximum / Threshold, platform/avx2.rs argmax_*/max_*,       *)
(* platform/sse2.rs argmax, scores.rs).                                    *)
(*                                                                         *)
(* D-layer over a table `t` of n rows x C cells (integers: grid f32 values *)
(* with NINF = -inf, or bytes):                                            *)
(*   MaxDef(t)          largest value stored in any cell                   *)
(*   ArgmaxOK(t, r, c)  cell (r, c) exists and holds MaxDef(t)             *)
(*   ThresholdSet(t, x) cells whose value is >= x                          *)
(*   Offset(n, r, c)    column-major position c*n + r                      *)
(* I-layer: the reductions as coded (generic scan with >=, AVX2 f32        *)
(* arg-max with per-column running maxima, AVX2 f32 max with its initial   *)
(* accumulator as a parameter, AVX2 u8 arg-max with the lane order of the  *)
(* unpack step as a parameter).                                            *)
(***************************************************************************)
EXTENDS LmBase

Cells(t, C) == (1..Len(t)) \X (1..C)
MaxDef(t, C) == SetMax({t[rc[1]][rc[2]] : rc \in Cells(t, C)})
ArgmaxOK(t, C, r, c) == r \in 0..(Len(t) - 1) /\ c \in 0..(C - 1) /\ t[r + 1][c + 1] = MaxDef(t, C)
ThresholdSet(t, C, x) == {<<rc[1] - 1, rc[2] - 1>> : rc \in {q \in Cells(t, C) : t[q[1]][q[2]] >= x}}
Offset(n, r, c) == c * n + r

\* ---------------------------------------------------------------- I-layer
\* generic: row-major scan, `>=` keeps the last maximum
RECURSIVE GenericScan(_, _, _, _)
GenericScan(t, C, k, best) ==       \* k = linear row-major index 0..n*C-1; best = <<r, c>>
  IF k = Len(t) * C THEN best
  ELSE LET r == k \div C  c == k % C IN
       GenericScan(t, C, k + 1, IF t[r + 1][c + 1] >= t[best[1] + 1][best[2] + 1] THEN <<r, c>> ELSE best)
GenericArgmax(t, C) == GenericScan(t, C, 0, <<0, 0>>)

\* per-column running maximum (value and row), comparison `<=` : later rows win ties
RECURSIVE ColBest(_, _, _, _)
ColBest(t, c, i, best) ==           \* best = row index of the column maximum so far
  IF i = Len(t) THEN best
  ELSE ColBest(t, c, i + 1, IF t[best + 1][c + 1] <= t[i + 1][c + 1] THEN i ELSE best)

\* AVX2 f32 arg-max: column maxima, then a strict `>` reduction over columns starting at (0,0)
RECURSIVE ColReduce(_, _, _, _, _)
ColReduce(t, C, x, col, best) ==
  IF col = C THEN best
  ELSE LET pos == <<x[col + 1], col>> IN
       ColReduce(t, C, x, col + 1, IF t[pos[1] + 1][pos[2] + 1] > t[best[1] + 1][best[2] + 1] THEN pos ELSE best)
Avx2ArgmaxF32(t, C) == ColReduce(t, C, [c \in 1..C |-> ColBest(t, c - 1, 0, 0)], 0, <<0, 0>>)

\* AVX2 f32 max: accumulators start at `init`
Avx2MaxF32(t, C, init) == SetMax({init} \cup {t[rc[1]][rc[2]] : rc \in Cells(t, C)})

\* AVX2 u8 arg-max: the column maxima are stored in the order produced by the unpack step,
\* `perm` maps the stored index (0-based) to the column it really describes, `assumed` to the
\* column the code believes it describes; the final reduction keeps the last maximum.
RECURSIVE LaneReduce(_, _, _, _, _, _)
LaneReduce(t, C, perm, assumed, k, best) ==
  IF k = C THEN best
  ELSE LET row == ColBest(t, perm[k + 1], 0, 0)
           pos == <<row, assumed[k + 1]>> IN
       LaneReduce(t, C, perm, assumed, k + 1,
                  IF best = <<>> \/ t[pos[1] + 1][pos[2] + 1] >= t[best[1] + 1][best[2] + 1] THEN pos ELSE best)
Avx2ArgmaxU8(t, C, perm, assumed) == LaneReduce(t, C, perm, assumed, 0, <<>>)
=============================================================================
