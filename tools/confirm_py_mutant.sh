#!/bin/bash
# usage: tools/confirm_py_mutant.sh <worktree> <mutant-dir> <module-name>
# Python-binding mutants: the demonstration is a unittest module installed into lightmotif-py/lightmotif/tests/
# and run by the crate's embedded-interpreter harness (cargo test -p lightmotif-py). Pass/fail is read from the
# unittest summary because that harness always exits 0.
set -u
wt="$1"; md="$2"; mod="$3"
cd "$wt" || exit 2
t=lightmotif-py/lightmotif/tests
install() {
  cp "$md/demo.py" "$t/$mod.py"
  python3 - "$mod" <<'PY'
import sys
m = sys.argv[1]
p = "lightmotif-py/lightmotif/tests/__init__.py"
s = open(p).read()
s = s.replace("    test_load\n)", "    test_load,\n    %s,\n)" % m)
s = s.replace("    return suite", "    suite.addTests(loader.loadTestsFromModule(%s))\n    return suite" % m)
open(p, "w").write(s)
PY
}
git checkout -q -- . ; rm -f "$t/$mod.py"
git apply --check "$md/patch.diff" || { echo "CONFIRM patch does not apply"; exit 2; }
git apply "$md/patch.diff"
fails=$(cargo test --workspace --no-fail-fast --offline 2>&1 | grep -E "^test .* FAILED$" | sort | tr '\n' ' ')
pyok=$(cargo test --offline -p lightmotif-py 2>&1 | grep -cE "^OK$")
install
with=$(cargo test --offline -p lightmotif-py 2>&1 | grep -E "^(OK|FAILED)" | tail -1)
git checkout -q -- . ; install
without=$(cargo test --offline -p lightmotif-py 2>&1 | grep -E "^(OK|FAILED)" | tail -1)
git checkout -q -- . ; rm -f "$t/$mod.py"
exp="test dispatch::argmax_f32 ... FAILED test dispatch::scanner_max ... FAILED test generic::argmax_f32 ... FAILED test sse2::argmax_f32 ... FAILED "
ok=1
[ "$fails" = "$exp" ] || { ok=0; echo "  suite failures differ: $fails"; }
[ "$pyok" -ge 1 ] || { ok=0; echo "  existing python unit tests not OK with the mutant"; }
case "$with" in FAILED*) ;; *) ok=0; echo "  demo does not fail with the mutant: $with";; esac
case "$without" in OK*) ;; *) ok=0; echo "  demo does not pass on the clean tree: $without";; esac
if [ $ok = 1 ]; then echo "CONFIRMED $md (suite: baseline set; python demo: '$with' with, '$without' without)"; else echo "NOT-CONFIRMED $md"; fi
