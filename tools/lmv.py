#!/usr/bin/env python3
"""
lmv - orchestration library for the model-based verification of althonos/lightmotif.

Pipeline of one check (see DESIGN.md section 3):

  build harness (cargo, /repo working tree, hooks on)
  MC      : TLC on the bounded model(s) of the property (spec sanity, refinement I => A, vacuity via -coverage)
  replay  : TLC-generated behaviours stepped through the real code            (spec -> impl, decisive)
  record  : drivers run the real code, one ndjson event per public call         (impl -> spec)
  trace   : TLC validates the recorded events against the A/D-layer            (decisive)
  evidence: /verif/evidence/<ID>.json ; VIOLATION / KNOWN-FINDING lines

Exit status: 0 held / 1 VIOLATION / 2 tool error (never reported as a violation).
"""
import json, os, re, shutil, subprocess, sys, time, hashlib
from concurrent.futures import ThreadPoolExecutor

VERIF = os.path.dirname(os.path.dirname(os.path.abspath(__file__)))
SPEC = os.path.join(VERIF, "spec")
HARNESS = os.path.join(VERIF, "harness")
REPO = os.environ.get("LMV_REPO", "/repo")   # the repository under test (override only for background runs on a snapshot)
TLC_JAR_CP = "/opt/veriftools/tla/tla2tools.jar:/opt/veriftools/tla/CommunityModules-deps.jar"


class ToolError(Exception):
    pass


def log(*a):
    print(*a, flush=True)


# --------------------------------------------------------------------------- build

def build_harness(release=False, package="lmconform"):
    """(Re)build the harness against /repo's current working tree."""
    # the path dependencies of the harness crates are rendered from Cargo.toml.in (default: /repo)
    for crate in ("lmconform", "lmpyconform"):
        tpl = os.path.join(HARNESS, crate, "Cargo.toml.in")
        if os.path.exists(tpl):
            want = open(tpl).read().replace("{REPO}", REPO)
            dst = os.path.join(HARNESS, crate, "Cargo.toml")
            if not os.path.exists(dst) or open(dst).read() != want:
                with open(dst, "w") as f:
                    f.write(want)
    lock_src = os.path.join(REPO, "Cargo.lock")
    lock_dst = os.path.join(HARNESS, "Cargo.lock")
    if not os.path.exists(lock_dst):
        shutil.copy(lock_src, lock_dst)
    cmd = ["cargo", "build", "-q", "-p", package]
    if release:
        cmd.append("--release")
    env = dict(os.environ, CARGO_NET_OFFLINE="true")
    t0 = time.time()
    p = subprocess.run(cmd, cwd=HARNESS, env=env, stdout=subprocess.PIPE, stderr=subprocess.STDOUT, text=True)
    if p.returncode != 0:
        # retry once with a fresh lock file copied from the repository
        shutil.copy(lock_src, lock_dst)
        p = subprocess.run(cmd, cwd=HARNESS, env=env, stdout=subprocess.PIPE, stderr=subprocess.STDOUT, text=True)
    if p.returncode != 0:
        raise ToolError("harness build failed:\n" + p.stdout[-4000:])
    return os.path.join(HARNESS, "target", "release" if release else "debug", package), time.time() - t0


# --------------------------------------------------------------------------- TLC

def write_cfg(path, spec="Spec", constants=None, invariants=(), view=None, postcondition=None,
              constraint=None, properties=(), symmetry=None, action_constraint=None):
    lines = ["SPECIFICATION " + spec]
    if constants:
        lines.append("CONSTANTS")
        for k, v in constants.items():
            if isinstance(v, bool):
                v = "TRUE" if v else "FALSE"
            if isinstance(v, str) and v.startswith("<-"):
                lines.append("  %s <- %s" % (k, v[2:].strip()))
            else:
                lines.append("  %s = %s" % (k, v))
    if view:
        lines.append("VIEW " + view)
    if invariants:
        lines.append("INVARIANTS " + " ".join(invariants))
    if properties:
        lines.append("PROPERTIES " + " ".join(properties))
    if constraint:
        lines.append("CONSTRAINT " + constraint)
    if action_constraint:
        lines.append("ACTION_CONSTRAINT " + action_constraint)
    if symmetry:
        lines.append("SYMMETRY " + symmetry)
    if postcondition:
        lines.append("POSTCONDITION " + postcondition)
    lines.append("CHECK_DEADLOCK FALSE")
    with open(path, "w") as f:
        f.write("\n".join(lines) + "\n")


def run_tlc(module, cfg, workdir, workers=8, env_extra=None, timeout=900, coverage=False,
            simulate=None, depth=None, seed=None, heap="6g", deque=False, tag="tlc"):
    """Run TLC; returns dict(out, rc, generated, distinct, depth, actions, wall)."""
    meta = os.path.join(workdir, tag + "-meta")
    os.makedirs(meta, exist_ok=True)
    jopts = "-Xss1g -Xmx%s -DTLA-Library=%s" % (heap, SPEC)
    if deque:
        jopts += " -Dtlc2.tool.queue.IStateQueue=StateDeque -XX:ParallelGCThreads=2"
    env = dict(os.environ, JAVA_TOOL_OPTIONS=jopts)
    if env_extra:
        env.update(env_extra)
    cmd = ["java", "-XX:+UseParallelGC", "-cp", TLC_JAR_CP, "tlc2.TLC",
           "-workers", str(workers), "-metadir", meta, "-cleanup", "-noGenerateSpecTE"]
    if coverage:
        cmd += ["-coverage", "1"]
    if simulate:
        cmd += ["-simulate", "num=%d" % simulate]
        if depth:
            cmd += ["-depth", str(depth)]
    if seed is not None:
        cmd += ["-seed", str(seed)]
    cmd += ["-config", cfg, module]
    t0 = time.time()
    try:
        p = subprocess.run(cmd, cwd=SPEC, env=env, stdout=subprocess.PIPE, stderr=subprocess.STDOUT,
                           text=True, timeout=timeout)
    except subprocess.TimeoutExpired:
        raise ToolError("TLC timeout on %s" % module)
    finally:
        shutil.rmtree(meta, ignore_errors=True)
    out = p.stdout
    res = dict(out=out, rc=p.returncode, wall=time.time() - t0, generated=0, distinct=0, depth=0, actions={})
    m = re.search(r"(\d[\d,]*) states generated, (\d[\d,]*) distinct states found", out)
    if m:
        res["generated"] = int(m.group(1).replace(",", ""))
        res["distinct"] = int(m.group(2).replace(",", ""))
    m = re.search(r"depth of the complete state graph search is (\d+)", out)
    if m:
        res["depth"] = int(m.group(1))
    # per-action coverage:  <Name line .. of module M>: distinct:generated
    for m in re.finditer(r"^<(\w+) line \d+, col \d+ to line \d+, col \d+ of module (\w+)(?: \([\d ]+\))?>: (\d+):(\d+)", out, re.M):
        res["actions"][m.group(1)] = res["actions"].get(m.group(1), 0) + int(m.group(4))
    return res


def tlc_failed(res):
    out = res["out"]
    if res["rc"] != 0:
        return True
    return bool(re.search(r"^Error:|is violated|Exception|Parsing or semantic analysis failed", out, re.M))


def tlc_error_excerpt(res, n=40):
    lines = [l for l in res["out"].splitlines() if not l.startswith("Picked up")]
    idx = next((i for i, l in enumerate(lines) if l.startswith("Error") or "violated" in l), max(0, len(lines) - n))
    return "\n".join(l[:300] for l in lines[idx:idx + n])


def printed(res, prefix):
    """Lines PrintT'ed by the spec that start with prefix (TLC prints TLA+ strings quoted and escaped)."""
    outs = []
    for l in res["out"].splitlines():
        if l.startswith('"' + prefix):
            try:
                s = json.loads(l)
            except Exception:
                continue
            outs.append(s[len(prefix):].strip())
    return outs


# --------------------------------------------------------------------------- traces

def split_histories(path):
    """Return list of histories; each history = list of raw lines (first one is the reset line)."""
    hists = []
    cur = None
    with open(path) as f:
        for line in f:
            line = line.rstrip("\n")
            if not line:
                continue
            if line.startswith('{"ev":"reset"'):
                cur = [line]
                hists.append(cur)
            else:
                if cur is None:
                    cur = ['{"ev":"reset"}']
                    hists.append(cur)
                cur.append(line)
    return hists


def shard(hists, n):
    """Greedy balance of histories over n shards by byte size; keeps (orig_index, lines)."""
    n = max(1, min(n, len(hists)))
    shards = [[] for _ in range(n)]
    sizes = [0] * n
    order = sorted(range(len(hists)), key=lambda i: -sum(len(x) for x in hists[i]))
    for i in order:
        k = sizes.index(min(sizes))
        shards[k].append(i)
        sizes[k] += sum(len(x) for x in hists[i])
    for s in shards:
        s.sort()
    return shards


def validate_trace(trace_module, ndjson, workdir, nshards=8, timeout=1500, cfg=None, heap="3g"):
    workdir = os.path.abspath(workdir)
    """Validate a recorded ndjson trace against spec/trace/<trace_module>.tla.
    Returns dict(histories, events_applied, rejects=[{hist, line_in_hist, event, exp, history}], states)."""
    hists = split_histories(ndjson)
    if not hists:
        raise ToolError("empty trace " + ndjson)
    shards = shard(hists, nshards)
    cfg = cfg or os.path.join(SPEC, "trace", "Trace.cfg")
    jobs = []
    for k, idxs in enumerate(shards):
        sp = os.path.join(workdir, "shard-%d.ndjson" % k)
        linemap = []  # 1-based line -> (hist index, offset in history)
        with open(sp, "w") as f:
            for hi in idxs:
                for off, line in enumerate(hists[hi]):
                    f.write(line + "\n")
                    linemap.append((hi, off))
        jobs.append((k, sp, linemap))

    def run(job):
        k, sp, linemap = job
        res = run_tlc(os.path.join("trace", trace_module + ".tla"), cfg, workdir, workers=1,
                      env_extra={"TRACE": sp}, timeout=timeout, deque=True, heap=heap, tag="trace-%d" % k)
        return job, res

    rejects = []
    tnotes = {}
    applied = 0
    states = 0
    with ThreadPoolExecutor(max_workers=len(jobs)) as ex:
        for (k, sp, linemap), res in ex.map(run, jobs):
            done = printed(res, "DONE")
            if tlc_failed(res) or not done:
                raise ToolError("trace validation crashed on shard %d (%s):\n%s" % (k, trace_module, tlc_error_excerpt(res)))
            nxt, nh, na = [int(x) for x in done[-1].split()]
            if nxt != len(linemap) + 1:
                raise ToolError("trace validation stopped early on shard %d: line %d of %d" % (k, nxt, len(linemap)))
            applied += na
            states += res["distinct"]
            for r in printed(res, "NOTE"):
                try:
                    nt = json.loads(r)["note"]
                except Exception:
                    nt = r
                tnotes[nt] = tnotes.get(nt, 0) + 1
            for r in printed(res, "REJECT"):
                d = json.loads(r)
                hi, off = linemap[d["line"] - 1]
                rejects.append(dict(hist=hi, offset=off, event=json.loads(hists[hi][off]), exp=d["exp"],
                                    history=[json.loads(x) for x in hists[hi]]))
    rejects.sort(key=lambda r: (r["hist"], r["offset"]))
    return dict(histories=len(hists), events_applied=applied, rejects=rejects, states=states, notes=tnotes,
                accepted=len(hists) - len(set(r["hist"] for r in rejects)))


# --------------------------------------------------------------------------- known findings

def load_known():
    p = os.path.join(VERIF, "known_findings.json")
    if not os.path.exists(p):
        return dict(findings=[], fixed=[])
    with open(p) as f:
        return json.load(f)


def _subset(pat, obj):
    """pattern matching: dict = recursive subset; list in pattern = any-of alternatives for scalars."""
    if isinstance(pat, dict) and "$any" in pat:
        return any(_subset(alt, obj) for alt in pat["$any"])
    if isinstance(pat, dict):
        if not isinstance(obj, dict):
            return False
        return all(k in obj and _subset(v, obj[k]) for k, v in pat.items())
    if isinstance(pat, list) and not isinstance(obj, list):
        return obj in pat
    return pat == obj


def match_known(prop, reject, known):
    """A reject matches a finding when property agrees and `match` is a sub-pattern of
    {"event": <rejected event>, "exp": <spec diagnostic>, "ctx": <first events of the history>}."""
    ctx = {}
    for e in reject.get("history", [])[:3]:
        if isinstance(e, dict) and e.get("ev") not in ("reset", None):
            ctx.setdefault(e["ev"], e)
    subject = dict(event=reject.get("event"), exp=reject.get("exp"), ctx=ctx)
    for f in known.get("findings", []):
        if f.get("property") != prop:
            continue
        if _subset(f.get("match", {}), subject):
            return f
    return None


# --------------------------------------------------------------------------- evidence

def write_evidence(prop, tier, seed, coverage, wall, violations, assumptions, level="model_checking"):
    os.makedirs(os.path.join(VERIF, "evidence"), exist_ok=True)
    ev = dict(property_id=prop, tier=tier, seed=seed, level=level, coverage=coverage,
              assumptions=assumptions, wall_s=round(wall, 2), violations=violations)
    with open(os.path.join(VERIF, "evidence", prop + ".json"), "w") as f:
        json.dump(ev, f, indent=1, sort_keys=True)
        f.write("\n")


def save_replay(prop, name, payload):
    d = os.path.join(VERIF, "replays", prop)
    os.makedirs(d, exist_ok=True)
    p = os.path.join(d, name + ".json")
    with open(p, "w") as f:
        json.dump(payload, f, indent=1)
    return p


def trim(v, n=1200):
    s = json.dumps(v)
    if len(s) <= n:
        return v
    return s[:n] + "...(truncated)"
