#!/bin/bash
# usage: tools/r3.sh <PROP> <demo-dest-a> <demo-dest-b> [extra props...]   (round-7 seeded changes from /tmp/mut/<PROP>-r7)
# confirms both changes in the scratch worktree, then imports them and runs the quick checks against each
prop="$1"; da="$2"; db="$3"; shift 3
wt=/tmp/mut/$prop-r7
for x in a b; do
  d=$da; [ $x = b ] && d=$db
  if [[ "$d" == *.py ]]; then echo "python demo: confirm by hand"; else /verif/tools/confirm_mutant.sh $wt $wt/mutants/mutant-$x $d | tail -3; fi
done
export SEED_ROUND=r7
python3 /verif/tools/seed_import.py $prop a $da "$@" 2>&1 | cut -c1-330
python3 /verif/tools/seed_import.py $prop b $db "$@" 2>&1 | cut -c1-330
git -C /repo status --short | head -3
