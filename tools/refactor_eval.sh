#!/bin/bash
# usage: tools/refactor_eval.sh [names...]  - applies each property-preserving change of seeded/refactors/ to /repo, checks that
# the existing tests keep their baseline pass/fail set, runs the quick checks listed in its README and expects every one of
# them to stay quiet (exit 0, no VIOLATION); reverts /repo afterwards.
cd /verif/seeded/refactors || exit 2
names="$@"; [ -z "$names" ] && names=$(ls)
for n in $names; do
  cd /repo; git diff --quiet || { echo "refusing: /repo dirty"; exit 2; }
  git apply /verif/seeded/refactors/$n/patch.diff || { echo "$n PATCH-DOES-NOT-APPLY"; continue; }
  fails=$(cargo test --workspace --no-fail-fast --offline 2>&1 | grep -E "^test .* FAILED$" | sort | tr '\n' ' ')
  exp="test dispatch::argmax_f32 ... FAILED test dispatch::scanner_max ... FAILED test generic::argmax_f32 ... FAILED test sse2::argmax_f32 ... FAILED "
  [ "$fails" = "$exp" ] && t="tests=baseline" || t="tests-differ[$fails]"
  props=$(grep -o "quiet: .*" /verif/seeded/refactors/$n/README.md | cut -d: -f2)
  res=""
  cd /verif
  for p in $props; do ./check $p quick >/tmp/refactor_$p.log 2>&1; rc=$?; res="$res $p=$rc"; [ $rc -ne 0 ] && grep -E "VIOLATION|TOOL-ERROR" -A1 /tmp/refactor_$p.log | head -3; done
  cd /repo; git checkout -q -- .
  echo "$n $t $res"
done
