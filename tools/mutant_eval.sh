#!/bin/bash
# usage: tools/mutant_eval.sh <patch.diff> <PROP> [<PROP>...]
# Applies a seeded change to /repo, runs the quick checks of the given properties, and reverts /repo.
# Prints one line per property: DETECTED (exit 1 + VIOLATION), MISSED (exit 0) or TOOL-ERROR (exit 2).
set -u
patch="$1"; shift
cd /repo || exit 2
if ! git diff --quiet; then echo "refusing: /repo has uncommitted changes"; exit 2; fi
if ! git apply --check "$patch" 2>/dev/null; then echo "PATCH-DOES-NOT-APPLY $patch"; exit 2; fi
git apply "$patch"
trap 'cd /repo && git checkout -q -- . && git clean -fdq -- lightmotif lightmotif-io lightmotif-tfmpvalue lightmotif-py 2>/dev/null' EXIT
cd /verif
for p in "$@"; do
  out=$(./check "$p" quick 2>&1); rc=$?
  case $rc in
    0) echo "$p MISSED";;
    1) echo "$p DETECTED $(echo "$out" | grep -m1 -A1 '^VIOLATION' | tr '\n' ' ' | cut -c1-300)";;
    *) echo "$p TOOL-ERROR $(echo "$out" | grep -m1 'TOOL-ERROR' | cut -c1-300)";;
  esac
done
