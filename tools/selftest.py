#!/usr/bin/env python3
"""
Binding self-test (`./check selftest [ID ...]`): demonstrates that the trace specifications really constrain the
recorded executions.  For every property a quick trace of the unchanged tree is recorded, ONE field of ONE event is
corrupted (a score, a cell, a record entry, an access offset, a start ...) - or one event is dropped - and TLC must
reject exactly that history while accepting the pristine trace.  Exit 0 when every corruption was rejected.
"""
import copy, json, os, shutil, subprocess, sys, time

sys.path.insert(0, os.path.dirname(os.path.abspath(__file__)))
import lmv
import props

BIG = 1073741000


def num(x):
    return isinstance(x, int) and not isinstance(x, bool) and abs(x) < BIG


def c01(e):
    if e.get("ev") == "score" and e.get("cells") and num(e["cells"][0][0]) and len(e["seq"]) >= len(e["pssm"]):
        e["cells"][0][0] += 1
        return "one score cell + 1"


def c02(e):
    if e.get("ev") == "next" and e.get("ret") == "hit" and num(e["score"]):
        e["score"] += 1
        return "hit score + 1"


def c03(e):
    if e.get("ev") == "max" and e.get("ret") == "hit":
        e["pos"] += 1
        return "best hit position + 1"


def c04(e):
    if e.get("ev") == "stripe" and e["post"]["rows"] and len(e["o"].get("seq", [])) >= 1:
        e["post"]["rows"][0][0] = (e["post"]["rows"][0][0] + 1) % 4
        return "one cell of the striped matrix changed"


def c05(e):
    if e.get("ev") == "encode" and e.get("ret") == "ok" and e["syms"]:
        e["syms"][-1] = (e["syms"][-1] + 1) % 4
        return "last encoded symbol changed"


def c06(e):
    if e.get("ev") == "mem" and e.get("sites"):
        e["sites"][0]["max_end"] += 64
        return "largest end offset of one site + 64"


def c07(e):
    if e.get("ev") == "reduce" and e.get("max") and num(e["max"][0]):
        e["max"][0] += 1
        return "reported maximum + 1"


def c08(e):
    if e.get("ev") == "dscore" and e.get("ret") == "ok" and e.get("cells") and max(e["sc"] or [0]) > 1:
        e["cells"] = [[0 for _ in r] for r in e["cells"]]
        return "all 8-bit scores zeroed"


def c09(e):
    if e.get("ev") == "to_freq" and e.get("ret") == "ok" and e["q"]:
        e["q"][0][0] += 60
        return "one frequency + 60/4096"


def c10(e):
    if e.get("ev") == "rc" and e.get("ret") == "ok" and e["out"] and e["out"][0][0] != e["out"][0][1]:
        e["out"][0][0], e["out"][0][1] = e["out"][0][1], e["out"][0][0]
        return "two entries of the reverse complement swapped"


def c11(e):
    if e.get("ev") == "dist" and e.get("ret") == "ok" and len(e["pv"]) > 3:
        k = len(e["pv"]) // 2
        e["pv"][k][1] = e["den"] + 5
        return "one p-value numerator set above 1"


def c12(e):
    if e.get("ev") == "tfm_pvalue" and e.get("ret") == "ok" and e["iters"]:
        e["iters"][0]["pmax"] += e["den"]
        e["iters"][0]["pmin"] += e["den"]
        return "first p-value range shifted by 1"


def c13(e):
    if e.get("ev") == "tfm_score" and e.get("ret") == "ok" and e["iters"]:
        e["iters"][-1]["tk"] -= 40 * e["iters"][-1]["ginv"]
        return "final threshold lowered by 40"


def c14(e):
    if e.get("ev") == "rd_next" and e.get("ret") == "record" and e["rec"]["m"]:
        e["rec"]["m"][0][0] = "987654"
        return "one matrix entry of a returned record changed"


def c15(e):
    if e.get("ev") == "rd_fuzz" and e["outcomes"][-1] == "error":
        e["outcomes"][-1] = "panic"
        return "final outcome changed to panic"


def c16(e):
    if e.get("ev") == "smp_step" and e.get("ret") == "ok":
        e["post"]["motif"][0][0] += 1
        return "one motif count + 1"


def c17(e):
    if e.get("ev") == "py_calc" and e.get("ret") == "ok" and e["scores"] and num(e["scores"][0]):
        e["scores"][0] += 1
        return "first Python score + 1"


def c18(e):
    if e.get("ev") == "py_index" and e.get("len", 0) > 1:
        for p in e["probes"]:
            if p["i"] == -1 and p["k"] == "ok":
                p["k"] = "IndexError"
                return "obj[-1] reported as IndexError"


def c19(e):
    if e.get("ev") == "dense" and e.get("ret") == "ok" and e["post"]["a"]:
        e["post"]["a"][0][0] = (e["post"]["a"][0][0] + 1) % 10
        return "one cell of matrix a changed"


# second corruption per property: the events added after the seeded-change rounds
def c08b(e):
    if e.get("ev") == "dscan" and e.get("ret") == "ok" and e.get("hits"):
        e["hits"] = e["hits"][1:]
        return "one hit of the scanner removed (dscan)"


def c03b(e):
    if e.get("ev") == "max" and e.get("ret") == "hit" and num(e["score"]):
        e["score"] -= 1
        return "score of the best hit - 1"


def c10b(e):
    if e.get("ev") == "rc_commute" and e.get("ret") == "ok" and e.get("bgs"):
        e["bgs"][0][0] += 300
        return "background of the reverse-complemented weight matrix changed"


def c13b(e):
    if e.get("ev") == "tfm_score" and e.get("ret") == "ok" and "sat" in e and e["iters"]:
        e["iters"][-1]["tk"] -= 40 * e["iters"][-1]["ginv"]
        return "threshold of a tiny-p query lowered by 40 (saturating distribution)"


def c19b(e):
    if e.get("ev") == "dense" and e.get("ret") == "ok" and e["o"].get("op") == "iter_ends" and e["obs"]["y"] and e["obs"]["y"][0]:
        e["obs"]["n"] += 1
        return "remaining length of a two-ended iteration + 1"


def c14b(e):
    if e.get("ev") == "rd_next" and e.get("ret") == "record" and e["rec"].get("id"):
        e["rec"]["id"] = e["rec"]["id"] + "x"
        return "identifier of a returned record changed"


def sc_lin(e):
    if e.get("ev") == "scores" and e["o"]["op"] == "iter_ends" and any(v >= 0 for v in e["obs"]["y"]):
        i = next(i for i, v in enumerate(e["obs"]["y"]) if v >= 0)
        e["obs"]["y"][i] += 1
        return "one value yielded by the score iterator + 1"


def sc_lin2(e):
    if e.get("ev") == "scores" and e["o"]["op"] == "resize" and e["o"]["r"] > 0:
        e["post"]["nv"] += 1
        return "valid positions after resize + 1"


def sc_red(e):
    if e.get("ev") == "scores" and e["o"]["op"] == "threshold" and len(e["obs"]) >= 1:
        e["obs"] = e["obs"][:-1]
        return "one threshold offset lost"


def sc_red2(e):
    if e.get("ev") == "scores" and e["o"]["op"] == "max" and e["obs"]:
        e["obs"][0] -= 1
        return "maximum of the score table - 1"


# recorders of objects shared by several properties (P["also_record"] of the lmconform package): label -> mode, trace, tests
OBJECTS = {"scores-linear": dict(trace="Trace_Scores", tests=[("corrupt", sc_lin), ("corrupt", sc_lin2), ("drop", lambda e: e.get("ev") == "scores" and e["o"]["op"] == "fill")]),
           "scores-reduce": dict(trace="Trace_Scores", tests=[("corrupt", sc_red), ("corrupt", sc_red2)])}

MUT2 = dict(C08=c08b, C03=c03b, C10=c10b, C13=c13b, C19=c19b, C14=c14b)

MUT = dict(C01=c01, C02=c02, C03=c03, C04=c04, C05=c05, C06=c06, C07=c07, C08=c08, C09=c09, C10=c10, C11=c11, C12=c12,
           C13=c13, C14=c14, C15=c15, C16=c16, C17=c17, C18=c18, C19=c19)
# properties whose histories are stateful: also test that dropping one event is noticed
DROP = dict(C02=lambda e: e.get("ev") == "next" and e.get("ret") == "hit",
            C14=lambda e: e.get("ev") == "rd_next" and e.get("ret") == "record",
            C16=lambda e: e.get("ev") == "smp_step")


def main(args):
    ids = args or (sorted(MUT) + sorted(OBJECTS))
    work = os.path.join(lmv.VERIF, "work", "selftest-%d" % os.getpid())
    shutil.rmtree(work, ignore_errors=True)
    os.makedirs(work)
    failed = 0
    try:
        bins = {}
        for pid in ids:
            P = props.PROPS[pid] if pid in props.PROPS else dict(trace=OBJECTS[pid]["trace"])
            pkg = P.get("package", "lmconform")
            if pkg not in bins:
                bins[pkg], _ = lmv.build_harness(False, pkg)
            nd = os.path.join(work, pid + ".ndjson")
            p = subprocess.run([bins[pkg], "record", pid, nd, "--seed", "1"], stdout=subprocess.PIPE, stderr=subprocess.PIPE, text=True, timeout=900)
            if p.returncode != 0:
                lmv.log("[selftest] %s: recording failed" % pid)
                failed += 1
                continue
            hists = lmv.split_histories(nd)
            tests = [("corrupt", MUT[pid])] if pid in MUT else list(OBJECTS[pid]["tests"])
            if pid in MUT2:
                tests.append(("corrupt", MUT2[pid]))
            if pid in DROP:
                tests.append(("drop", DROP[pid]))
            for tno, (kind, fn) in enumerate(tests):
                target = None
                for hi, h in enumerate(hists[: 8000]):
                    for li in range(1, len(h)):
                        e = json.loads(h[li])
                        if kind == "corrupt":
                            what = fn(e)
                            if what:
                                target = (hi, li, json.dumps(e), what)
                                break
                        elif fn(e) and li + 1 < len(h):
                            target = (hi, li, None, "one %s event dropped" % e.get("ev"))
                            break
                    if target:
                        break
                if not target:
                    lmv.log("[selftest] %s/%s: no applicable event found" % (pid, kind))
                    failed += 1
                    continue
                hi, li, repl, what = target
                # the corrupted history plus two untouched neighbours (which must still be accepted)
                sel = [i for i in (hi - 1, hi, hi + 1) if 0 <= i < len(hists)]
                out = os.path.join(work, "%s-%s-%d.ndjson" % (pid, kind, tno))
                with open(out, "w") as f:
                    for i in sel:
                        for j, line in enumerate(hists[i]):
                            if i == hi and j == li:
                                if repl is None:
                                    continue
                                line = repl
                            f.write(line + "\n")
                tv = lmv.validate_trace(P["trace"], out, work, nshards=1, timeout=600)
                bad_h = sorted(set(r["hist"] for r in tv["rejects"]))
                ok = bad_h == [sel.index(hi)]
                lmv.log("[selftest] %s %-7s %-45s -> %s" % (pid, kind, what, "rejected (only that history)" if ok else "NOT AS EXPECTED: rejected histories %s" % bad_h))
                if not ok:
                    failed += 1
    except lmv.ToolError as e:
        lmv.log("TOOL-ERROR selftest: %s" % e)
        return 2
    finally:
        shutil.rmtree(work, ignore_errors=True)
    lmv.log("[selftest] %s" % ("all corruptions were rejected" if failed == 0 else "%d problems" % failed))
    return 0 if failed == 0 else 2


if __name__ == "__main__":
    sys.exit(main(sys.argv[1:]))
