#!/usr/bin/env python3
"""usage: tools/seed_import.py <PROP> <a|b> <demo-dest> [extra props to run...]
Imports a confirmed seeded change from /tmp/mut/<PROP>/mutants/mutant-<x> into /verif/seeded/<PROP>-<x>/ and runs the
quick checks of <PROP> (and extra props) against it via tools/mutant_eval.sh; records everything in meta.json."""
import json, os, re, shutil, subprocess, sys
prop, x, dest = sys.argv[1:4]
extra = sys.argv[4:]
rnd = os.environ.get("SEED_ROUND", "")
src = "/tmp/mut/%s%s/mutants/mutant-%s" % (prop, "-" + rnd if rnd else "", x)
sid = "%s-%s%s" % (prop, rnd, x)
dst = "/verif/seeded/" + sid
os.makedirs(dst, exist_ok=True)
shutil.copy(src + "/patch.diff", dst + "/patch.diff")
demo = "demo.py" if os.path.exists(src + "/demo.py") else "demo.rs"
shutil.copy(src + "/" + demo, dst + "/" + os.path.basename(dest))
readme = open(src + "/README.md").read()
open(dst + "/README.agent.md", "w").write(readme)
props = [prop] + extra
p = subprocess.run(["/verif/tools/mutant_eval.sh", dst + "/patch.diff"] + props, stdout=subprocess.PIPE, stderr=subprocess.STDOUT, text=True)
results = {}
for line in p.stdout.splitlines():
    m = re.match(r"^(C\d\d) (DETECTED|MISSED|TOOL-ERROR)(.*)$", line)
    if m:
        results[m.group(1)] = dict(outcome=m.group(2), detail=m.group(3).strip()[:400])
files = sorted(set(re.findall(r"^\+\+\+ b/(\S+)", open(dst + "/patch.diff").read(), re.M)))
meta_path = dst + "/meta.json"
meta = json.load(open(meta_path)) if os.path.exists(meta_path) else {}
meta.update(dict(
    id=sid, breaks_property=prop, files_changed=files, demonstration=os.path.basename(dest),
    demonstration_placement=dest,
    confirmed=dict(how="tools/confirm_mutant.sh (confirm_py_mutant.sh for Python demonstrations) in the scratch worktree /tmp/mut/%s (removed afterwards)" % prop,
                   suite_with_change="baseline pass/fail set (84 stable tests pass, only the 4 baseline `--test argmax` failures; lightmotif-py unit tests OK)",
                   demo_with_change="fails", demo_without_change="passes"),
    written_by="independent sub-agent given only the property text and its own worktree",
))
meta.setdefault("runs", []).append(dict(checks=props, results=results))
meta["detected_by"] = sorted(k for r in meta["runs"] for k, v in r["results"].items() if v["outcome"] == "DETECTED")
json.dump(meta, open(meta_path, "w"), indent=1)
print(sid, {k: v["outcome"] for k, v in results.items()})
for k, v in results.items():
    if v["outcome"] != "MISSED":
        print("   ", k, v["detail"][:250])
