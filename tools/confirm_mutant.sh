#!/bin/bash
# usage: tools/confirm_mutant.sh <worktree> <mutant-dir> <demo-dest-relative-path>
# Confirms independently, inside the scratch worktree: (i) with the patch the workspace tests give the baseline
# pass/fail set (only the 4 `--test argmax` failures), (ii) the demo fails with the patch, (iii) passes without.
set -u
wt="$1"; md="$2"; dest="$3"
cd "$wt" || exit 2
git checkout -q -- . ; rm -f "$dest"
crate=$(echo "$dest" | cut -d/ -f1); tname=$(basename "$dest" .rs)
git apply --check "$md/patch.diff" || { echo "CONFIRM patch does not apply"; exit 2; }
git apply "$md/patch.diff"
fails=$(cargo test --workspace --no-fail-fast --offline 2>&1 | grep -E "^test .* FAILED$" | sort | tr '\n' ' ')
pyok=$(cargo test --offline -p lightmotif-py 2>&1 | grep -cE "^OK$")
mkdir -p "$(dirname "$dest")"; cp "$md/demo.rs" "$dest"
cargo test --offline -p "$crate" --test "$tname" >/tmp/mut/demo_m.log 2>&1; rc_m=$?
git checkout -q -- .
cargo test --offline -p "$crate" --test "$tname" >/tmp/mut/demo_c.log 2>&1; rc_c=$?
rm -f "$dest"
exp="test dispatch::argmax_f32 ... FAILED test dispatch::scanner_max ... FAILED test generic::argmax_f32 ... FAILED test sse2::argmax_f32 ... FAILED "
ok=1
[ "$fails" = "$exp" ] || { ok=0; echo "  suite failures differ: $fails"; }
[ "$pyok" -ge 1 ] || { ok=0; echo "  python unit tests not OK"; }
[ $rc_m -ne 0 ] || { ok=0; echo "  demo does not fail with the mutant"; }
[ $rc_c -eq 0 ] || { ok=0; echo "  demo does not pass on the clean tree"; }
if [ $ok = 1 ]; then echo "CONFIRMED $md (suite: baseline set; demo: fails with, passes without)"; else echo "NOT-CONFIRMED $md"; fi
