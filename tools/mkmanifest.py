#!/usr/bin/env python3
"""Regenerate /verif/MANIFEST.json from tools/props.py (single source of truth for what is claimed)."""
import json, os, sys
sys.path.insert(0, os.path.dirname(os.path.abspath(__file__)))
import props

ALL = ["C%02d" % i for i in range(1, 20)]
checks = []
for pid in ALL:
    P = props.PROPS.get(pid)
    if not P or P.get("disabled"):
        continue
    checks.append(dict(
        property_id=pid,
        quick_cmd="./check %s quick" % pid,
        thorough_cmd="./check %s thorough" % pid,
        evidence_file="/verif/evidence/%s.json" % pid,
        replay_cmd_template="./check %s --replay {path}" % pid,
        engine="tlc+lmconform",
        level_claimed=dict(category="model_checking", text=P["level_text"], design_ref=P.get("design_ref", "DESIGN.md section 6, " + pid)),
        level_note=P["level_note"],
        technique=P.get("technique", "TLA+ specification model-checked with TLC, bound to the code by trace validation of recorded executions and replay of TLC behaviours"),
    ))
na = []
for pid in ALL:
    P = props.PROPS.get(pid)
    if not P or P.get("disabled"):
        na.append(dict(property_id=pid, reason=props.NOT_APPLICABLE.get(pid, "check not built yet in this round; see DESIGN.md section 6 for the planned specification")))
m = dict(
    version=1,
    setup_cmd="./check setup",
    hooks=dict(
        guard="lightmotif_verif",
        enable="rustc --cfg lightmotif_verif via /verif/harness/.cargo/config.toml (build.rustflags); the harness crates depend on /repo/* by path",
        baseline_off_cmd="cd /repo && cargo test --workspace --no-fail-fast --offline",
        source_commits=props.HOOK_COMMITS,
        add_only=True,
    ),
    engines=[
        dict(name="tlc", path="/verif/spec", serves_properties=[c["property_id"] for c in checks],
             kind_free_text="TLA+ specification (D/A/I layers), bounded models spec/mc, trace specifications spec/trace; TLC 1.8.0"),
        dict(name="lmconform", path="/verif/harness", serves_properties=[c["property_id"] for c in checks],
             kind_free_text="Rust conformance harness: drivers recording real executions as ndjson (impl->spec) and replayer of TLC behaviours (spec->impl); lmpyconform embeds CPython for the Python bindings"),
    ],
    checks=checks,
    not_applicable=na,
    notes="All checks: ./check <ID> quick|thorough; exit 0 held, 1 VIOLATION, 2 tool error. known_findings.json lists unrepaired defects and fixed: entries.",
)
with open(os.path.join(os.path.dirname(os.path.dirname(os.path.abspath(__file__))), "MANIFEST.json"), "w") as f:
    json.dump(m, f, indent=1)
    f.write("\n")
print("claimed:", [c["property_id"] for c in checks])
