"""Per-property configuration of the checks (see DESIGN.md section 6)."""

PROPS = {}
NOT_APPLICABLE = {}
HOOK_COMMITS = ["8fb4223", "3373e87"]

DENSE_INV = ["TypeOK", "Refines", "EqRefines", "RowCount", "KeepOld", "NewDefault", "CloneEq", "CloneEq2", "Untouched", "IterOrder", "EndsExact", "EmitReplay"]
PROPS["C19"] = dict(
    mc=[
        dict(name="MC_Dense", module="MC_Dense", view="View", invariants=DENSE_INV,
             constants=dict(C=2, K=3, Stride=3, Emit=False),
             quick=dict(MaxRows=2, MaxDepth=4), thorough=dict(MaxRows=3, MaxDepth=5),
             actions=["New", "Resize", "SetC", "Fill", "CloneOp", "Observe"]),
        dict(name="MC_Dense_replay", module="MC_Dense", invariants=DENSE_INV, emit=True,
             constants=dict(C=2, K=3, Stride=3, Emit=True),
             quick=dict(MaxRows=2, MaxDepth=3), thorough=dict(MaxRows=2, MaxDepth=4),
             actions=["New", "Resize", "SetC", "Fill", "CloneOp", "Observe"]),
    ],
    record=True, trace="Trace_C19",
    level_text="Bounded exhaustive model checking of the DenseMatrix state machine (two matrices, all operation "
               "histories to a fixed depth, storage model with padded rows refined against the logical table), every "
               "TLC behaviour replayed step by step on the real DenseMatrix, and seeded random histories of the real "
               "code at the listed element types / column counts validated by TLC against the same step function. "
               "Histories are the quantifier of C19, which is what a state-machine model enumerates.",
    level_note="Bounded (depth, 2-3 rows, 2 columns in MC); realistic column counts only through sampled histories; "
               "32-byte alignment case only; trusted: TLC, Json module, harness projection code.",
    rule="MC: every history of DenseMatrix operations up to MaxDepth on two C-column matrices (A-layer) with the "
         "stride/padding storage model in lock-step (I-layer). spec->impl: every complete behaviour of the replay "
         "model stepped through DenseMatrix<T,U2> for T in u8,u32,f32,i64. impl->spec: seeded random histories on "
         "DenseMatrix<T,C> for T x C in {u8,u32,f32,i64} x {1,5,7,16,21,32,43}; full contents of both matrices, "
         "observation and layout (stride, row address mod 32, row spacing) logged after every call and validated "
         "by TLC against Dense!DenseStep. distinct_nontrivial = distinct (type, columns, operation+arguments, "
         "row count before) tuples.",
    assumptions=["x86-64 alignment unit (32 bytes); the 16-byte case of other targets cannot execute here",
                 "unsafe DenseMatrix::uninitialized / ravel are exercised only through from_rows / fill",
                 "TLC, CommunityModules Json/IOUtils and the 20-line projection code of the harness are trusted"],
)


STRIPED_INV = ["Refines", "DeepWrap", "ExactWrap", "NoGarbage", "FullData", "EmitReplay"]
STRIPED_ACT = ["StripeFresh", "StripeInto", "Configure"]
PROPS["C04"] = dict(
    mc=[
        dict(name="MC_Striped_generic_C2", module="MC_Striped", view="View", invariants=STRIPED_INV, actions=STRIPED_ACT,
             constants=dict(C=2, K=3, Variant='"generic"', T=2, Emit=False, MaxWrap=4),
             quick=dict(MaxLen=4, MaxDepth=3), thorough=dict(MaxLen=5, MaxDepth=3)),
        dict(name="MC_Striped_tiles_C2", module="MC_Striped", view="View", invariants=STRIPED_INV, actions=STRIPED_ACT,
             constants=dict(C=2, K=3, Variant='"tiles"', T=2, Emit=False, MaxWrap=4),
             quick=dict(MaxLen=5, MaxDepth=3), thorough=dict(MaxLen=6, MaxDepth=2)),
        dict(name="MC_Striped_tiles_C3", module="MC_Striped", view="View", invariants=STRIPED_INV, actions=STRIPED_ACT,
             constants=dict(C=3, K=3, Variant='"tiles"', T=2, Emit=False, MaxWrap=3),
             quick=dict(MaxLen=5, MaxDepth=2), thorough=dict(MaxLen=6, MaxDepth=2)),
        dict(name="MC_Striped_replay_C1", module="MC_Striped", view="View", invariants=STRIPED_INV, emit=True,
             constants=dict(C=1, K=3, Variant='"generic"', T=1, Emit=True, MaxWrap=3),
             quick=dict(MaxLen=3, MaxDepth=3), thorough=dict(MaxLen=4, MaxDepth=4)),
        dict(name="MC_Striped_replay_C2", module="MC_Striped", view="View", invariants=STRIPED_INV, emit=True,
             constants=dict(C=2, K=3, Variant='"generic"', T=2, Emit=True, MaxWrap=3),
             quick=dict(MaxLen=4, MaxDepth=3), thorough=dict(MaxLen=5, MaxDepth=3)),
        dict(name="MC_Striped_replay_C3", module="MC_Striped", view="View", invariants=STRIPED_INV, emit=True,
             constants=dict(C=3, K=3, Variant='"generic"', T=3, Emit=True, MaxWrap=3),
             quick=dict(MaxLen=4, MaxDepth=2), thorough=dict(MaxLen=5, MaxDepth=3)),
        dict(name="MC_Striped_replay_C4", module="MC_Striped", view="View", invariants=STRIPED_INV, emit=True,
             constants=dict(C=4, K=3, Variant='"generic"', T=4, Emit=True, MaxWrap=3),
             quick=dict(MaxLen=5, MaxDepth=2), thorough=dict(MaxLen=6, MaxDepth=2)),
    ],
    record=True, trace="Trace_C04", shards=12,
    level_text="Bounded exhaustive model checking of the striping buffer (all sequences over 2 symbols + wildcard up to "
               "MaxLen, all histories of stripe / stripe_into / configure_wrap up to MaxDepth; generic fill and the AVX2 "
               "tile+tail+fill algorithm as I-models refined against the layout definition), replay of TLC behaviours on "
               "the real generic pipeline at C in {1,2,4}, and TLC validation of recorded histories of the real generic / "
               "AVX2 / dispatched (each arm forced) pipelines, DNA and protein, C in {1,2,4,16,32}, lengths across every "
               "residue mod 32 and the 32x32 tile boundary. Histories x inputs x configurations are exactly what the "
               "state machine enumerates (small) and what trace validation samples (real sizes).",
    level_note="MC bounded to C<=4, L<=7; real column counts and lengths only by sampled executions (every L<=70 and "
               "selected lengths up to 2049 in quick; every L<=1100 plus 2k/4k/8k in thorough). NEON not executable. "
               "Look-ahead rows deeper than the sequence rows are advisory here (decided through C01). "
               "Trusted: TLC, Json module, the harness projection of the matrix.",
    rule="impl->spec: one history = one buffer through stripe (fresh, or EncodedSequence::to_striped for dispatch), "
         "stripe_into (reuse with longer/shorter sequence), configure_wrap / configure (widths up, down, 0, deeper than "
         "the row count); after every call the full matrix, len, wrap, 8 sampled Index results and both symbol-count "
         "APIs are logged and checked by TLC against Striped!ObsOK. distinct_nontrivial = distinct (backend, arm, "
         "alphabet, C, length, fresh/reuse | width) tuples.",
    assumptions=["wildcard rank is K-1 and is the default symbol (true for Dna and Protein)",
                 "sequence contents are random with 2-20% wildcards; adversarial contents are not needed because "
                 "striping is content-oblivious (checked in MC for all contents)"],
)


PROPS["C05"] = dict(
    mc=[
        dict(name="MC_Encode_W2", module="MC_Encode", invariants=["RefinesLe", "RefinesLt", "RoundTrip", "AcceptIff"],
             constants=dict(W=2), quick=dict(MaxLen=6), thorough=dict(MaxLen=8), actions=["Extend"]),
        dict(name="MC_Encode_W3", module="MC_Encode", invariants=["RefinesLe", "RefinesLt", "RoundTrip", "AcceptIff"],
             constants=dict(W=3), quick=dict(MaxLen=8), thorough=dict(MaxLen=9), actions=["Extend"]),
        dict(name="MC_Encode_W4", module="MC_Encode", invariants=["RefinesLe", "RefinesLt", "RoundTrip", "AcceptIff"],
             constants=dict(W=4), quick=dict(MaxLen=8), thorough=dict(MaxLen=10), actions=["Extend"]),
    ],
    record=True, trace="Trace_C05", shards=12,
    level_text="The encoder definition (accept iff all bytes are letters, ranks, first offending byte, display round trip) "
               "is the D-layer; the block encoders (vector width W, both loop tests, error flag, rescan, scalar tail) are "
               "model-checked against it for every string over two letters and two non-letters up to 2W+2 bytes, and every "
               "recorded call of the real generic / SSE2 / AVX2 / dispatched (each arm forced) encoders, DNA and protein, "
               "through encode / encode_raw / encode_into / EncodedSequence::encode / from_str is validated by TLC against "
               "the same definition.",
    level_note="MC at W in {2,3,4}; real widths 16/32 only by recorded executions (lengths 0..100, 127..129, 255..257; "
               "one invalid byte at block-relative positions (all positions in thorough), two invalid bytes, all 256 byte "
               "values at lane 0 / last lane / first tail byte). NEON not executable. Trusted: TLC, Json module.",
    rule="impl->spec: one event per encode call {backend, arm, alphabet, api, bytes, outcome}; "
         "distinct_nontrivial = distinct (alphabet, byte string) inputs, each run on six backend configurations.",
    assumptions=["InvalidSymbol carries the offending byte as a char (bytes >= 0x80 as Latin-1 code points)"],
)


SCORES_INV = ["TypeOK", "LenOK", "ResizeKeeps", "ReadsPure", "EmptyView", "IndexLinear", "OffsetBij", "ReduceCovers", "IterRefines", "IterExact", "EmitReplay"]
PROPS["C01"] = dict(
    mc=[
        dict(name="MC_Score_C2", module="MC_Score", invariants=["KernelRefines", "FullScanOK"], actions=["Pick"],
             constants=dict(C=2, Vals="{0, 1, 3}"),
             quick=dict(MaxLen=4, MaxM=2, WVals="{0}"), thorough=dict(MaxLen=5, MaxM=2, WVals="{0}")),
        dict(name="MC_Score_C2_ninf", module="MC_Score", invariants=["KernelRefines", "FullScanOK"], actions=["Pick"],
             constants=dict(C=2, Vals="<- Vals01N", WVals="<- ValsN"),
             quick=dict(MaxLen=4, MaxM=2), thorough=dict(MaxLen=5, MaxM=2)),
        dict(name="MC_Score_C3_M3", module="MC_Score", invariants=["KernelRefines", "FullScanOK"], actions=["Pick"],
             constants=dict(C=3, Vals="{0, 1}", WVals="<- ValsN"),
             quick=dict(MaxLen=4, MaxM=3), thorough=dict(MaxLen=5, MaxM=3)),
        dict(name="MC_Score_C1_M4", module="MC_Score", invariants=["KernelRefines", "FullScanOK"], actions=["Pick"],
             constants=dict(C=1, Vals="{0, 2}", WVals="{0}"),
             quick=dict(MaxLen=4, MaxM=3), thorough=dict(MaxLen=5, MaxM=4), tiers=("thorough",)),
        # the object scoring fills and the caller reads "the value at position i" from (spec/Scores.tla): every operation
        # history to a fixed depth with the iterator as coded checked against the linear view, the histories of the linear
        # view replayed on the real StripedScores, the coordinate-cursor iterator as negative control
        dict(name="MC_Scores", module="MC_Scores", view="View", invariants=SCORES_INV,
             constants=dict(C=2, K=3, Cursors=False, Emit=False, OpsMode='"all"'),
             quick=dict(MaxRows=2, MaxDepth=3), thorough=dict(MaxRows=3, MaxDepth=4),
             actions=["Resize", "Write", "Read", "Iterate", "Reduce"]),
        dict(name="MC_Scores_replay_linear", module="MC_Scores", invariants=SCORES_INV, emit=True,
             constants=dict(C=2, K=3, Cursors=False, Emit=True, OpsMode='"linear"'),
             quick=dict(MaxRows=2, MaxDepth=3), thorough=dict(MaxRows=2, MaxDepth=4),
             actions=["Resize", "Write", "Read", "Iterate"]),
        dict(name="MC_Scores_neg_cursor_iterator", module="MC_Scores", invariants=["IterRefines"], expect_violation="IterRefines",
             constants=dict(C=2, K=3, Cursors=True, Emit=False, OpsMode='"all"', MaxRows=2, MaxDepth=3)),
    ],
    record=True, trace="Trace_C01", shards=12,
    also_record=[dict(package="lmconform", mode="scores-linear", trace="Trace_Scores", tag="scores-object", shards=4)],
    level_text="The score table as an object (spec/Scores.tla): every operation history to a fixed depth is model-checked (linear view, iterator as coded refined against it, coordinate-cursor iterator as negative control), every history of the linear view is replayed on the real StripedScores, and random histories of the real object are validated by TLC. "
               "WindowScore is the D-layer definition; the column-wise kernel reading the striped matrix with look-ahead "
               "rows is model-checked against it for every small sequence, matrix (finite and -inf cells) and row "
               "sub-range, including look-ahead deeper than the sequence rows; every recorded scoring call of the real "
               "generic (C=1,2,4,16,32) / SSE2 (16,32) / AVX2 / dispatched (each arm forced) pipelines, DNA (permute "
               "path) and protein (gather path), through score / score_into (reused buffer) / score_rows_into / "
               "ScoringMatrix::score / score_position / unstripe / Index is validated cell by cell by TLC. Scores live "
               "on a dyadic grid so that the comparison is exact (no floating-point tolerance needed).",
    level_note="Numeric accuracy on non-grid matrices is outside the technique (only exact grid matrices are decided). "
               "MC bounded to C<=3, L<=7, M<=4; real sizes by sampled executions (every L<=C*3+6 (quick) / <=140 "
               "(thorough), 1031, 8190..8194 in thorough). NEON not executable. Trusted: TLC, Json module, grid conversion.",
    rule="impl->spec: one event per scoring call {backend, arm, alphabet, C, api, seq, pssm, wrap, row range, shape, "
         "all cells, unstriped list, sampled Index}; distinct_nontrivial = distinct (backend, arm, alphabet, C, L, M, "
         "range, api) tuples. Classes count L<M, L=M, look-ahead deeper than rows, sub-ranges, wildcards in sequence.",
    assumptions=["grid matrices: entries k/4 with |k|<=20 or -inf, so every partial sum is exact in f32 in any order",
                 "in-contract calls only: look-ahead rows >= M-1, row range within the sequence rows"],
)


RED_INV = ["GenericOK", "Avx2F32OK", "MaxInitOK", "LanesOK", "ThresholdOK"]
PROPS["C07"] = dict(
    mc=[
        dict(name="MC_Reduce_f32_C2", module="MC_Reduce", invariants=RED_INV, actions=["AddRow"],
             constants=dict(C=2, Vals="<- ValsN", MaxInit="<- NinfC", Perm="<- Ident2", Assumed="<- Ident2"),
             quick=dict(MaxRows=3), thorough=dict(MaxRows=4)),
        dict(name="MC_Reduce_f32_C4", module="MC_Reduce", invariants=RED_INV, actions=["AddRow"],
             constants=dict(C=4, Vals="<- ValsN", MaxInit="<- NinfC", Perm="<- Swap4", Assumed="<- Swap4"),
             quick=dict(MaxRows=2), thorough=dict(MaxRows=2)),
        dict(name="MC_Reduce_u8_C4", module="MC_Reduce", invariants=["GenericOK", "LanesOK", "ThresholdOK"], actions=["AddRow"],
             constants=dict(C=4, Vals="<- ValsU", MaxInit="<- ZeroC", Perm="<- Swap4", Assumed="<- Swap4"),
             quick=dict(MaxRows=2), thorough=dict(MaxRows=2)),
        dict(name="MC_Reduce_neg_zero_init", module="MC_Reduce", invariants=["MaxInitOK"], expect_violation="MaxInitOK",
             constants=dict(C=2, Vals="<- ValsN", MaxInit="<- ZeroC", Perm="<- Ident2", Assumed="<- Ident2", MaxRows=2)),
        dict(name="MC_Reduce_neg_lane_order", module="MC_Reduce", invariants=["LanesOK"], expect_violation="LanesOK",
             constants=dict(C=4, Vals="<- ValsU", MaxInit="<- ZeroC", Perm="<- Swap4", Assumed="<- Ident4", MaxRows=2)),
        # the object the reductions read (spec/Scores.tla): its histories of resize / write / offset / maximum / threshold
        # replayed on the real StripedScores (the model itself and the histories of the linear view are in C01)
        dict(name="MC_Scores_replay_reduce", module="MC_Scores", invariants=SCORES_INV, emit=True,
             constants=dict(C=2, K=3, Cursors=False, Emit=True, OpsMode='"reduce"'),
             quick=dict(MaxRows=2, MaxDepth=3), thorough=dict(MaxRows=2, MaxDepth=4),
             actions=["Resize", "Write", "Read", "Reduce"]),
    ],
    record=True, trace="Trace_C07", shards=12,
    also_record=[dict(package="lmconform", mode="scores-reduce", trace="Trace_Scores", tag="scores-object", shards=4)],
    level_text="The histories of offsets / maximum / threshold of the score-table model (spec/Scores.tla) are replayed on the real StripedScores and random histories of the real object (generic pipeline and the dispatched StripedScores methods) are validated by TLC. "
               "Maximum / arg-maximum / threshold set are D-layer definitions over a rows x C table; the generic scan, the "
               "AVX2 column-maxima arg-max, the AVX2 max kernel (initial accumulator as a parameter) and the AVX2 u8 "
               "arg-max (lane order of the unpack step as a parameter) are model-checked against them on every small "
               "table, with the as-originally-coded variants (zero accumulator, identity lane order) kept as negative "
               "controls that must violate the invariant. Every recorded call of the real generic / SSE2 / AVX2 / "
               "dispatched (each arm forced) reductions on f32 and u8 tables built directly in StripedScores, through the "
               "pipeline traits, the StripedScores API (offsets) and the linear Scores API, is validated by TLC.",
    level_note="Tables with NaN are outside the property. MC at C<=4, <=4 rows; real C=16/32 and up to 5000 rows by "
               "recorded executions with the maximum placed in every column / 128-bit lane, first / last / middle row, "
               "duplicated maxima, all-negative, all -inf, 0 and 255 for u8. The float padding sentence of C07 is "
               "checked in C01 (PadInv). Trusted: TLC, Json module.",
    rule="impl->spec: one event per table x backend {rows, thr, max, argmax, hits}; distinct_nontrivial = distinct "
         "(backend, arm, element type, C, table, threshold).",
    assumptions=["f32 tables hold grid values or -inf (no NaN), so comparisons are exact"],
)


PROPS["C08"] = dict(
    mc=[
        dict(name="MC_Discrete_sat_M2", module="MC_Discrete", invariants=["NoUnderestimate", "NoLostHit"], actions=["Choose"],
             constants=dict(Kernel='"sat"', MaxM=2), quick=dict(MaxCell=4), thorough=dict(MaxCell=7)),
        dict(name="MC_Discrete_sat_M3", module="MC_Discrete", invariants=["NoUnderestimate", "NoLostHit"], actions=["Choose"],
             constants=dict(Kernel='"sat"', MaxM=3), quick=dict(MaxCell=1), thorough=dict(MaxCell=2)),
        dict(name="MC_Discrete_neg_wrap", module="MC_Discrete", invariants=["NoUnderestimate"], expect_violation="NoUnderestimate",
             constants=dict(Kernel='"wrap"', MaxM=2, MaxCell=3)),
    ],
    record=True, trace="Trace_C08", shards=8, release="both",
    level_text="The theorem behind C08 (saturating sum of rounded-up cells >= floor image of the real score, hence no lost "
               "hit) is model-checked in exact integer arithmetic over every small matrix, every admissible rounding "
               "(+0/+1 per cell) and every word, with the wrapping kernel as a negative control. Every recorded 8-bit "
               "scoring call of the real AVX2 / generic / SSE2 / dispatched (each arm forced) kernels and of "
               "DiscreteMatrix::score_position, in dev and release builds, is validated by TLC: 8-bit score of every "
               "position >= the code's own scale() of that position's real score (itself re-derived as the window score), "
               "no lost hit for logged thresholds, scale monotone, no panic.",
    level_note="The property is checked as stated, against the matrix's own scale(); whether scale() is the exact floor "
               "and cells the exact round-up is only reported as a note. MC at M<=3, cells 0..7; real widths 1..40, "
               "consensus / anti-consensus / near-consensus words planted, wildcards, finite and -inf wildcard columns. "
               "Trusted: TLC, Json module, grid conversion.",
    rule="impl->spec: one event per (matrix, sequence, backend, profile) {grid matrix, discretised matrix, real score and "
         "scale() per position, thresholds with scale(), 8-bit table}; distinct_nontrivial = distinct (backend, arm, C, "
         "matrix, sequence).",
    assumptions=["matrices have finite non-wildcard entries on the grid (k/4); wildcard column -inf or finite"],
)


SCAN_INV = ["NoPanic", "OnlyQual", "NoDuplicate", "Complete", "MaxRefines"]
SCAN_ACT = ["ScanBlock", "Pop", "Finish", "MaxCall"]
SCAN_FIXED = dict(SeqRowsOnly=True, BoundIndex=True, CheckFirst=True, BoundFrom='"scale"')
def _scan_mc():
    return [
        dict(name="MC_Scanner_repaired", module="MC_Scanner", invariants=SCAN_INV, actions=SCAN_ACT, workers=10, timeout=3000,
             constants=dict(C=2, BlockSizes="{1, 2}", **SCAN_FIXED),
             quick=dict(MaxLen=4, MaxM=2, Vals="{0, 2}"), thorough=dict(MaxLen=5, MaxM=2, Vals="{0, 1, 3}")),
        dict(name="MC_Scanner_M3", module="MC_Scanner", invariants=SCAN_INV, actions=SCAN_ACT, workers=6, timeout=3000,
             constants=dict(C=2, BlockSizes="{1, 3}", **SCAN_FIXED),
             quick=dict(MaxLen=3, MaxM=3, Vals="{0, 1}"), thorough=dict(MaxLen=5, MaxM=3, Vals="{0, 1}")),
        dict(name="MC_Scanner_neg_all_rows", module="MC_Scanner", invariants=["NoPanic"], expect_violation="NoPanic",
             constants=dict(C=2, BlockSizes="{1, 2}", MaxLen=3, MaxM=2, Vals="{0, 2}",
                            SeqRowsOnly=False, BoundIndex=True, CheckFirst=True, BoundFrom='"scale"')),
        dict(name="MC_Scanner_neg_no_index_bound", module="MC_Scanner", invariants=["NoPanic", "OnlyQual"], expect_violation="NoPanic",
             constants=dict(C=2, BlockSizes="{1, 2}", MaxLen=3, MaxM=2, Vals="{0, 2}",
                            SeqRowsOnly=True, BoundIndex=False, CheckFirst=True, BoundFrom='"scale"')),
        dict(name="MC_Scanner_neg_first_unchecked", module="MC_Scanner", invariants=["MaxRefines"], expect_violation="MaxRefines",
             constants=dict(C=2, BlockSizes="{1, 2}", MaxLen=3, MaxM=2, Vals="{0, 2}",
                            SeqRowsOnly=True, BoundIndex=True, CheckFirst=False, BoundFrom='"scale"')),
        # a matrix whose 8-bit rounding reorders two windows (MC_Scanner!WitnessMats): the repaired bound holds for every
        # sequence, the originally coded bound (best_discrete = the candidate's 8-bit score) prunes the better window
        dict(name="MC_Scanner_reorder", module="MC_Scanner", invariants=SCAN_INV, actions=SCAN_ACT, workers=8, timeout=3000,
             constants=dict(C=2, BlockSizes="{1, 3}", MaxM=3, Vals="{0}", Mats="<- WitnessMats", Thrs="<- WitnessThrs", **SCAN_FIXED),
             quick=dict(MaxLen=5), thorough=dict(MaxLen=7)),
        dict(name="MC_Scanner_neg_dscore_bound", module="MC_Scanner", invariants=["MaxRefines"], expect_violation="MaxRefines",
             constants=dict(C=2, BlockSizes="{1, 3}", MaxLen=8, MaxM=3, Vals="{0}", Mats="<- WitnessMats", Thrs="<- WitnessThrs",
                            Seqs="<- WitnessSeqs", SeqRowsOnly=True, BoundIndex=True, CheckFirst=True, BoundFrom='"dscore"')),
    ]

SCAN_COMMON = dict(
    record=True, trace="Trace_Scan", shards=12,
    assumptions=["DNA, C = 32 (the only configuration for which the scanner exists)",
                 "grid matrices (k/4), thresholds on the grid or -inf; block sizes >= 1",
                 "dev profile (overflow checks on); the release-profile behaviour of the 8-bit kernels is covered by C08"],
)
PROPS["C02"] = dict(SCAN_COMMON, mc=_scan_mc(),
    level_text="A-layer: the scanner is a set of not-yet-returned qualifying positions; next() may return any of them with "
               "its exact score, None only when the set is empty; panics and hangs are not actions. I-layer: the block "
               "loop of scan.rs (8-bit pre-filter over the exactly discretised matrix, block skip, candidate re-scoring, "
               "hit buffer, pop) is model-checked to refine it for every small sequence / matrix / threshold / block size, "
               "with the originally coded loop bound and the missing candidate bound as negative controls. Every recorded "
               "iteration to exhaustion of the real Scanner (each dispatcher arm forced; lengths 32R-d around every block "
               "boundary, L<M, empty; thresholds above max .. -inf; block sizes 1..7 and 256) is validated by TLC.",
    level_note="MC at C=2, L<=5, M<=3; real scanner (C=32) by recorded executions only. Hit order is free. "
               "Trusted: TLC, Json module, grid conversion.",
    rule="impl->spec: one history per (input, arm, block size): scan_new then next() until None (cap L+2 calls = hang); "
         "distinct_nontrivial = distinct (arm, sequence, matrix, threshold, block size).")
PROPS["C03"] = dict(SCAN_COMMON, mc=_scan_mc(),
    level_text="A-layer: max() returns None iff no qualifying position remains, otherwise a remaining position whose exact "
               "score is the maximum over the remaining ones (consumed hits excluded; block size and arm are not inputs of "
               "the abstract machine). I-layer: Scanner::max as coded (buffered hits, best / best_discrete pruning, tie "
               "rule) is model-checked to refine it from every reachable scanner state, with the unchecked first candidate "
               "and the over-estimated bound as negative controls. Recorded histories next()^k ; max() of the real Scanner, "
               "each input run with two block sizes and two arms, are validated by TLC.",
    level_note="MC at C=2, L<=5, M<=3; real scanner by recorded executions only; near-ties come from low-complexity "
               "sequences and 4-valued matrices whose 8-bit rounding reorders windows. Trusted: TLC, Json module.",
    rule="impl->spec: one history per (input, arm, block size, k): scan_new, k x next(), max(); each input with two block "
         "sizes / arms and with k = 0; distinct_nontrivial = distinct (arm, input, block size, k).")


PWM_INV = ["Involution", "MirrorScore", "Bounds", "RowSumsOne", "RCFreq", "LgPow2", "LgMono", "LgAdd"]
def _pwm_mc():
    return [dict(name="MC_Pwm", module="MC_Pwm", invariants=PWM_INV, constants=dict(),
                 quick=dict(MaxM=2, CellVals="{0, 2}", MaxX=3000), thorough=dict(MaxM=2, CellVals="{0, 1, 3}", MaxX=8000))]
PROPS["C09"] = dict(mc=_pwm_mc(), record=True, trace="Trace_C09", shards=12,
    also_record=[dict(package="lmpyconform", mode="C09", trace="Trace_Py", shards=2, tag="py")],
    level_text="The conversions are D-layer definitions in exact rational arithmetic (counts, (count+pseudo)/total, "
               "frequency/background with the zero-background convention, fixed-point logarithm in the requested base, "
               "min/max score as sums of row extrema, validity predicates); their algebraic facts (rows sum to one, window "
               "scores within [min,max], Lg exact on powers of two / monotone / additive) are model-checked on all small "
               "matrices. Every recorded conversion of the real library (DNA and protein, scalar and per-symbol "
               "pseudocounts, uniform / dyadic / decimal backgrounds, bases 2, 4, 8, 10, 2.75, every route to log-odds, "
               "rescale, from_sequences incl. ragged input, Background::new / from_counts, FrequencyMatrix::new) is "
               "validated by TLC against them; so are the same conversions through the Python bindings (normalize / "
               "log_odds with numbers or dicts, backgrounds and bases together: py_norm events, Trace_Py).",
    level_note="Numeric accuracy is outside the technique: frequencies/weights are checked to 2^-12 (1-2 units), log-odds "
               "to 6 units of 2^-10; zeros, -inf and counts exactly. Valid decimal backgrounds rejected by the exact "
               "`sum == 1.0` test are reported as a note, not a violation (C09 only requires invalid input to be rejected). "
               "Trusted: TLC, Json module, quantisation code.",
    rule="impl->spec: one event per conversion result; distinct_nontrivial = distinct (alphabet, count matrix, "
         "pseudocounts, background) / sequence sets.",
    assumptions=["counts <= 24 per row, widths <= 10, pseudocounts in {0,1/10,1/4,1/2,3/4,1}, background denominators "
                 "<= 32 (so that all cross-multiplications stay below 2^31 in TLC)"])
PROPS["C10"] = dict(mc=_pwm_mc(), record=True, trace="Trace_C10", shards=12,
    also_record=[dict(package="lmpyconform", mode="C10", trace="Trace_Py", shards=2, tag="py")],
    level_text="Reverse complement is the D-layer operator RC (row reversal + A<->T, C<->G, N fixed); involution, mirrored "
               "window scores and commutation with counting are model-checked on all small matrices / words. Recorded "
               "reverse complements of real count / frequency / scoring matrices (widths 0..30, wildcard column populated, "
               "-inf cells), their double application, both orders of conversion under strand-symmetric pseudocounts and "
               "background, and the scores of the reverse-complemented matrix on the reverse-complemented sequence are "
               "validated by TLC.",
    level_note="Weight matrices are covered through the commutation events (no public constructor from raw cells). "
               "Grid matrices make the mirrored-score comparison exact; conversions compared to 2^-12 / 2^-10. "
               "Python reverse_complement is recorded here too (py_rc events, Trace_Py) and in C17. Trusted: TLC, Json module.",
    rule="impl->spec: events rc (4 per width), rc_commute, rc_score; distinct_nontrivial = distinct (matrix, sequence).",
    assumptions=["DNA only (the only complementable alphabet)"])


RD_INV = ["NoPanic", "ExactRecord", "Complete", "StartAtMark"]
def _rd_mc():
    return [
        dict(name="MC_Reader_jaspar_buffer", module="MC_Reader", invariants=RD_INV, actions=["New", "Next1"],
             constants=dict(Underflow=False), quick=dict(MaxRec=3, MaxBody=3, MaxSlack=3), thorough=dict(MaxRec=5, MaxBody=4, MaxSlack=6)),
        dict(name="MC_Reader_neg_underflow", module="MC_Reader", invariants=["NoPanic"], expect_violation="NoPanic",
             constants=dict(Underflow=True, MaxRec=2, MaxBody=2, MaxSlack=1)),
        dict(name="MC_LineReader_transfac", module="MC_LineReader", invariants=["ExactRecord", "Complete"], actions=["TNew", "TNext"],
             constants=dict(Format='"transfac"'), quick=dict(MaxRec=3, MaxBody=3), thorough=dict(MaxRec=5, MaxBody=4)),
        dict(name="MC_LineReader_uniprobe", module="MC_LineReader", invariants=["ExactRecord", "Complete"], actions=["UNext"],
             constants=dict(Format='"uniprobe"'), quick=dict(MaxRec=3, MaxBody=3), thorough=dict(MaxRec=5, MaxBody=4)),
    ]
PROPS["C14"] = dict(mc=_rd_mc(), record=True, trace="Trace_C14", shards=12,
    # the same guarantee through lightmotif.load on Python file objects (streams that return short reads), validated by Trace_Py
    also_record=[dict(package="lmpyconform", mode="C14", trace="Trace_Py", shards=2, tag="py")],
    level_text="A-layer: a reader is a queue of the abstract motifs the file was rendered from; every request returns exactly "
               "the head (identifier / accession / name / description as written, every entry in the row of its position "
               "and the column of its symbol, other columns zero), then end of input; the chunk schedule is not part of the "
               "abstract state. I-layer: the JASPAR buffer / start / compaction bookkeeping is model-checked to return each "
               "record whole and in order for every file shape and every capacity the allocator may choose. Recorded reads "
               "of rendered files (4 formats, DNA and protein, 1..120 (quick) / 400 (thorough) records, widths 1..40, counts "
               "up to 2^32-1, optional metadata, permuted symbol columns, optional VV block) through a BufRead delivering "
               "1-byte, {2,3,7}, 7, 64, 4096, random or whole-file chunks are validated by TLC; bundled test files must read "
               "identically under three schedules.",
    level_note="Well-formed means the canonical syntax of the four renderers in harness/lmconform/src/readers.rs (the syntax "
               "shown in the crate documentation and test files); they are trusted. TRANSFAC counts are kept below 10^5 "
               "(stored as f32 by the library). MC covers the JASPAR-style buffer/start/compaction bookkeeping and the TRANSFAC (buffer/last, version block) "
               "and UniPROBE (pending-line flag, blank lines) line machines at token level; record syntax is covered by trace validation. Trusted: TLC, Json module.",
    rule="impl->spec: one history per (format, alphabet, motif list, schedule): rd_new then rd_next until none; "
         "distinct_nontrivial = distinct (format, alphabet, file bytes, schedule).",
    assumptions=["std::io::BufRead::read_until / read_line honour their contract for any fill_buf chunking"])
PROPS["C15"] = dict(mc=_rd_mc(), record=True, trace="Trace_C15", shards=12,
    level_text="Totality: construction and every request end in record | error | none; panic and hang are not actions of the "
               "reader machine, and the number of records is bounded by the input length. The JASPAR buffer model is "
               "checked panic-free for all file shapes (with the original `n - 1` in Reader::new as a negative control). "
               "Recorded outcome sequences of the four real readers on empty / tiny inputs, every prefix and every "
               "single-byte deletion of a valid file, dictionary substitutions / insertions, dropped lines and tokens "
               "(ragged matrices, headers without matrix), missing final newline, random bytes and invalid UTF-8, under seven "
               "chunk schedules, are validated by TLC.",
    level_note="'All byte strings' is sampled (structured around the grammar: ~12 000 inputs quick, ~50 000 thorough); "
               "exhaustive only in the token model. Python `load` is covered by C17. Trusted: TLC, Json module.",
    rule="impl->spec: one event per input {format, mutation, schedule, outcomes}; distinct_nontrivial = distinct "
         "(format, alphabet, bytes).",
    assumptions=["a reader is driven until the first error / none, at most len+2 requests (more = hang)"])


SMP_INV = ["MotifIsRecomputation", "BgIsRecomputation", "InRange", "OopsAllActive", "BgSame"]
PROPS["C16"] = dict(
    mc=[
        dict(name="MC_Sampler_zoops", module="MC_Sampler", invariants=SMP_INV, actions=["Step"],
             constants=dict(Data="<- D1", W=2, Mode='"zoops"', Asymmetric=False), quick=dict(MaxSteps=3), thorough=dict(MaxSteps=5)),
        dict(name="MC_Sampler_oops", module="MC_Sampler", invariants=SMP_INV, actions=["Step"],
             constants=dict(Data="<- D1", W=1, Mode='"oops"', Asymmetric=False), quick=dict(MaxSteps=3), thorough=dict(MaxSteps=5)),
        dict(name="MC_Sampler_neg_asymmetric", module="MC_Sampler", invariants=["BgIsRecomputation"], expect_violation="BgIsRecomputation",
             constants=dict(Data="<- D1", W=2, Mode='"zoops"', Asymmetric=True, MaxSteps=2)),
    ],
    record=True, trace="Trace_C16", shards=16,
    level_text="A-layer: the alignment (active set, starts) is the state; motif counts, background counts and the counts "
               "reported with an iteration are functions of it, a step touches only the held-out sequence. I-layer: the "
               "incremental include / exclude bookkeeping is model-checked to equal the recomputation in every reachable "
               "state (both modes, every held-out choice, new start and zoops decision; an exclude that forgets the "
               "background as negative control). Recorded runs of the real sampler (DNA and protein, widths 1..20, one-"
               "occurrence and zero-or-one mode with seeds / inertia / patience, each dispatcher arm forced for scoring, "
               "220 (quick) / 1500 (thorough) steps, each run executed twice) are validated step by step by TLC.",
    level_note="Which start is drawn and which sequences zoops keeps are free (not part of C16). Zoops with fewer than two "
               "seed sequences panics before reporting any step (Background::from_counts of an empty alignment); C16 is "
               "vacuous there and the driver uses >= 2 seeds. Background compared to 2^-16. Trusted: TLC, Json module, the "
               "harness comparison of the two same-seed traces.",
    rule="impl->spec: one history per run: smp_new, smp_step x steps, smp_det; distinct_nontrivial = distinct step events.",
    assumptions=["StdRng::seed_from_u64 seeds derived from VERIF_SEED", "sequences are configured with wrap >= width (in contract)"])


def _dist_mc():
    return [dict(name="MC_Dist", module="MC_Dist", invariants=["ConvIsEnum", "TotalMass", "MemeOK"], actions=["Pick"], workers=2,
                 constants=dict(G=4), quick=dict(MaxM=2, CellVals="{0, 1, 6}"), thorough=dict(MaxM=2, CellVals="{0, 1, 3, 6}"))]
PROPS["C11"] = dict(mc=_dist_mc(), record=True, trace="Trace_C11", shards=12,
    # the same guarantee through the Python bindings (ScoringMatrix.pvalue / .score, also on a reverse complement taken
    # after the forward distribution was cached): recorded by the embedded interpreter, validated by Trace_Py
    also_record=[dict(package="lmpyconform", mode="C11", trace="Trace_Py", shards=2, tag="py")],
    level_text="D-layer: the exact score distribution of a background-distributed word as integer numerators over bd^M "
               "(convolution, cross-checked against enumeration of all words in the bounded model). I-layer: the MEME-style "
               "table of dist.rs (offset, scale, rounded integer matrix, pdf, survival function, index look-up) in exact "
               "arithmetic, model-checked to satisfy Tail(s+d) <= pvalue(s) <= Tail(s-d) with d = (ceil(M/2)+1) steps and to "
               "be monotone, for every small matrix. Recorded ScoreDistributions of real grid matrices (M = 1..8, uniform / "
               "dyadic / decimal backgrounds): whole-table monotonicity and range, p-values of every attainable score +-1 "
               "grid step, below min, above max, and p -> score -> p round trips are validated by TLC against the exact tail.",
    level_note="Matrices on the 1/4 grid only (exact scores); non-grid log-odds matrices are not decided (numeric accuracy is "
               "outside the technique). 'M/2+1' is read as ceil(M/2)+1 so that the check never demands more than the "
               "statement. Decimal backgrounds: numerators rounded, one unit of slack. The Python bindings' pvalue / score (incl. the cached distribution of a reverse-complemented matrix) are recorded too and validated by Trace_Py's py_pvalue rule (same bracket). "
               "Trusted: TLC, Json module.",
    rule="impl->spec: one event per (matrix, background); distinct_nontrivial = distinct (matrix, background).",
    assumptions=["finite non-wildcard entries; the wildcard in each of its roles: -inf with frequency 0 (most cases), -inf with a "
                 "frequency of its own (known finding C11-wildcard-frequency-below-minimum), finite scores with frequency 0, "
                 "finite scores and a frequency (then one more symbol of the word model, events written with K = 6)"])
def _tfm_mc():
    return _dist_mc() + [
        dict(name="MC_Tfm_g10", module="MC_Tfm", invariants=["RangeOK"], coverage=False, workers=6,   # -coverage exhausts the heap on the deeply recursive operators
             constants=dict(GI=10, SeedFromRow0=False), quick=dict(MaxM=2, CellVals="{0, 1, 3, 6}"), thorough=dict(MaxM=3, CellVals="{0, 1, 3, 6}")),
        dict(name="MC_Tfm_g100", module="MC_Tfm", invariants=["RangeOK"], coverage=False, workers=6,
             constants=dict(GI=100, SeedFromRow0=False), quick=dict(MaxM=2, CellVals="{0, 2, 5}"), thorough=dict(MaxM=2, CellVals="{0, 1, 3, 6}")),
        dict(name="MC_Tfm_wildcard_frequency", module="MC_Tfm", invariants=["RangeOK"], coverage=False, workers=6,
             constants=dict(GI=10, SeedFromRow0=False, Bgs="<- WildBgs"), quick=dict(MaxM=2, CellVals="{0, 1, 3, 6}"), thorough=dict(MaxM=3, CellVals="{0, 3, 6}")),
        dict(name="MC_Tfm_neg_bucket_as_coded", module="MC_Tfm", invariants=["RangeOK"], expect_violation="RangeOK", coverage=False,
             constants=dict(GI=10, SeedFromRow0=False, Bgs="<- WildBgs", BucketAsCoded="<- AsCodedTrue", Mats="<- WildWitness", MaxM=3, CellVals="{0}")),
        dict(name="MC_Tfm_wildcard_witness", module="MC_Tfm", invariants=["RangeOK"], coverage=False,
             constants=dict(GI=10, SeedFromRow0=False, Bgs="<- WildBgs", Mats="<- WildWitness", MaxM=3, CellVals="{0}")),
        dict(name="MC_Tfm_neg_seed_row0", module="MC_Tfm", invariants=["RangeOK"], expect_violation="RangeOK", coverage=False,
             constants=dict(GI=10, SeedFromRow0=True, MaxM=2, CellVals="{0, 2, 5}")),
    ]
PROPS["C12"] = dict(mc=_tfm_mc(), record=True, trace="Trace_Tfm", shards=12,
    # the final p-value through the Python bindings (method="tfmpvalue", DNA and protein arms), validated by Trace_Py
    also_record=[dict(package="lmpyconform", mode="C12", trace="Trace_Py", shards=2, tag="py")],
    level_text="Every refinement step of TfmPvalue::approximate_pvalue on real grid matrices (M = 2..6, uniform / dyadic / "
               "decimal backgrounds; scores below the minimum, above the maximum, attainable, just above an attainable "
               "value) is validated by TLC against the exact tail (D-layer convolution, model-checked against enumeration): "
               "0 <= pmin <= pmax <= 1, P(S >= s+(M+1)g) <= pmin, pmax <= P(S >= s-(M+2)g); the last step is the final p-value. "
               "One matrix in four has the wildcard in one of its other roles (a background frequency of its own, finite scores, or both).",
    level_note="I-layer: TfmPvalue::{recompute, distribution, lookup_pvalue} transcribed in exact integer arithmetic (Tfm.tla) "
               "and model-checked to satisfy the stated bounds for every small matrix / background / row permutation / score "
               "at g = 1/10 and 1/100 - also for backgrounds that give the wildcard a frequency (suffix mass of the overflow bucket) - "
               "with the originally coded seed of the running sum and the originally coded bucket as negative controls; the trace "
               "specification also reports (advisory) when the real look-up differs from the I-model at g = 1/10. The decisive "
               "oracle for the real code is the exact tail, as the property states it. Matrices with (K-1)^M beyond 4^6 and "
               "non-grid matrices are not decided. Trusted: TLC, Json module.",
    rule="impl->spec: one event per (matrix, background, score) with all iterations; distinct_nontrivial = distinct queries.",
    assumptions=["at most 6 refinement steps are recorded per query (granularity down to 1e-6)"])
def _tfmscore_mc():
    return _dist_mc() + [
        dict(name="MC_TfmScore", module="MC_TfmScore", invariants=["Refines"], coverage=False, workers=6,
             constants=dict(NarrowMargin=False, OffsetWindow=False, G=4, K=3), quick=dict(MaxM=2, CellVals="{0, 1, 3, 6}"), thorough=dict(MaxM=3, CellVals="{0, 1, 6}")),
        dict(name="MC_TfmScore_signed", module="MC_TfmScore", invariants=["Refines"], coverage=False, workers=6,
             constants=dict(NarrowMargin=False, OffsetWindow=False, G=16, K=3),
             quick=dict(MaxM=2, CellVals="<- SignedD"), thorough=dict(MaxM=3, CellVals="<- SignedF")),
        # the recorded execution that exposed the displaced refinement window (M = 5, DNA): repaired iterator holds,
        # the iterator as originally coded (window carried in offset units) violates the bound at g = 1/100
        dict(name="MC_TfmScore_witness", module="MC_TfmScore", invariants=["Refines"], coverage=False, workers=4,
             constants=dict(NarrowMargin=False, OffsetWindow=False, G=16, K=5, MaxM=5, CellVals="{0}",
                            Mats="<- WitnessMats", Bgs="<- WitnessBgs", Pns="<- WitnessPns")),
        dict(name="MC_TfmScore_neg_offset_window", module="MC_TfmScore", invariants=["Refines"], expect_violation="Refines", coverage=False, workers=4,
             constants=dict(NarrowMargin=False, OffsetWindow=True, G=16, K=5, MaxM=5, CellVals="{0}",
                            Mats="<- WitnessMats", Bgs="<- WitnessBgs", Pns="<- WitnessPns")),
    ]
PROPS["C13"] = dict(mc=_tfmscore_mc(), record=True, trace="Trace_Tfm", shards=14,
    # the final threshold through the Python bindings (score(p, method="tfmpvalue"), DNA and protein arms), validated by Trace_Py
    also_record=[dict(package="lmpyconform", mode="C13", trace="Trace_Py", shards=2, tag="py")],
    level_text="Every refinement step of TfmPvalue::approximate_score on real grid matrices (M = 2..6, three background "
               "families, p over small fractions incl. 1/bd^M) is validated by TLC against the exact tail: with d = (M+2)g, "
               "P(S >= t+d) <= p, and P(S >= u-d) >= p for the largest attainable u below t-d; thresholds are multiples of "
               "the reported granularity.",
    level_note="I-layer: lookup_score and the first two steps of the refinement iterator (window margins ceil(error_max + 0.5)) "
               "are transcribed in Tfm.tla and model-checked (MC_TfmScore) to satisfy both clauses for every small matrix, "
               "signed 1/16-grid matrices included; the recorded execution that exposed the displaced refinement window of the "
               "original iterator is kept as a witness configuration (repaired window holds, window as coded is the negative control); "
               "background, row permutation and p = k / (2 bd^M). Fidelity was compared on recorded queries: identical "
               "thresholds for dyadic backgrounds; for decimal backgrounds the f64 sums decide exact ties (sum == p) "
               "differently from exact arithmetic - both outcomes satisfy the property - so the comparison is not part of the "
               "check. Recorded queries come from fresh and from reused TfmPvalue objects, grids 1/4 and 1/16, constant rows, "
               "attainable tails and midpoints, p of the order of 1e-17 (saturating distribution Dist!ConvDistSat), and the wildcard in its "
               "four roles (wild = none / frequency_only / finite_scores_zero_frequency / finite_scores_and_frequency; the last one is the "
               "known finding C13-wildcard-column-not-a-symbol). Same limits as C12. Trusted: TLC, Json module.",
    rule="impl->spec: one event per (matrix, background, p) with all iterations; distinct_nontrivial = distinct queries.",
    assumptions=["at most 6 refinement steps are recorded per query"])


def _py_mc():
    return [
        dict(name="MC_PyObj", module="MC_PyObj", invariants=["IndexOK", "ViewOK"],
             constants=dict(AccessNormalised=True, ShapeRowsFirst=True), quick=dict(MaxLen=4), thorough=dict(MaxLen=7)),
        dict(name="MC_PyObj_neg_raw_index", module="MC_PyObj", invariants=["IndexOK"], expect_violation="IndexOK",
             constants=dict(AccessNormalised=False, ShapeRowsFirst=True, MaxLen=3)),
        dict(name="MC_PyObj_neg_view_shape", module="MC_PyObj", invariants=["ViewOK"], expect_violation="ViewOK",
             constants=dict(AccessNormalised=True, ShapeRowsFirst=False, MaxLen=1)),
        dict(name="MC_Striped_reuse", module="MC_Striped", view="View", invariants=STRIPED_INV, actions=STRIPED_ACT,
             constants=dict(C=2, K=3, Variant='"generic"', T=2, Emit=False, MaxWrap=4, MaxLen=4, MaxDepth=3)),
    ]
PROPS["C17"] = dict(mc=_py_mc(), record=True, trace="Trace_Py", shards=12, package="lmpyconform", record_timeout=900,
    level_text="The Python module is driven in an embedded CPython in which /repo's lightmotif-py crate is registered as "
               "lightmotif.lib; every recorded call (calculate on a striped sequence reused with motifs of different widths "
               "in both orders, max / argmax / threshold, scan with thresholds and block sizes, create, CountMatrix.normalize "
               "with float / dict pseudocounts, log_odds with background dict and base, pvalue / score with both methods, "
               "reverse_complement, load from path / file object / short-read file object in four formats, and 21 error "
               "paths) is validated by TLC against the same D-layer operators that decide C01-C03, C07, C09-C14: "
               "WindowScore, MaxDef / ThresholdSet, Qual, rational weights and fixed-point log-odds, exact tails, RC, "
               "ExpectedMatrix. Failures must be ordinary exceptions, never pyo3 PanicException. The dispatcher arm is forced "
               "through hook H1 from Python.",
    level_note="Grid matrices (k/4) make scores exact; weights to 2^-12, log-odds to 6/1024. The Scanner is driven on the "
               "detected and AVX2 arms only (the other arms hit the known generic 8-bit kernel finding of C08). MC covers the "
               "index / view mechanisms and buffer reuse, not the whole object graph. Trusted: TLC, Json module, CPython, "
               "py/driver.py (records only, computes no expected value).",
    rule="impl->spec: one event per Python call history element; distinct_nontrivial = distinct events.",
    assumptions=["the embedded interpreter is the system python3 the lightmotif-py crate links against"])
PROPS["C18"] = dict(mc=_py_mc(), record=True, trace="Trace_Py", shards=12, package="lmpyconform", record_timeout=900,
    level_text="Sequence protocol and buffer views of every Python object class are specified in PyObj (GetItemOK: -len..len-1 "
               "give the element, everything else IndexError, never a panic; views: format / itemsize / ndim / shape of the "
               "logical object and tolist() equal to the logical contents) and model-checked for the index normalisation and "
               "the view addressing (original raw-index access and (K, M) shape as negative controls). Recorded probes of "
               "EncodedSequence, StripedSequence (before and after look-ahead rows were added by calculate), StripedScores, "
               "Count / Weight / ScoringMatrix and the survival function, for all indices -len-2..len+1 and memoryview "
               "tolist(), sizes incl. empty objects and widths whose stride differs from the column count, are validated by TLC.",
    level_note="Both readings of the ScoringMatrix buffer ((positions, symbols) or (symbols, positions)) are accepted when "
               "shape, strides and elements agree; a striped sequence must keep the shape (C, R) after look-ahead rows were "
               "added by calculate / scan ('no padding visible'). A hard crash of the interpreter would be reported as a tool error. Trusted: TLC, CPython's "
               "memoryview.",
    rule="impl->spec: one event per (object, all probed indices) or per view; distinct_nontrivial = distinct events.",
    assumptions=["CPython's memoryview.tolist() follows shape / strides / format faithfully"])


PROPS["C06"] = dict(
    # scanners created through the Python bindings that outlive every other reference to their matrix and sequence (the
    # hits must still be those of the original objects; a crash of the interpreter is reported as a violation)
    also_record=[dict(package="lmpyconform", mode="C06", trace="Trace_Py", shards=2, tag="py")],
    mc=[
        dict(name="MC_Mem", module="MC_Mem", invariants=["EncodeIn", "StripeIn", "StripeFast", "ScoreIn"],
             constants=dict(Guarded=True), quick=dict(MaxL=2200), thorough=dict(MaxL=9000)),
        dict(name="MC_Mem_neg_unguarded_tiles", module="MC_Mem", invariants=["StripeIn"], expect_violation="StripeIn",
             constants=dict(Guarded=False, MaxL=1100)),
    ],
    record=True, trace="Trace_C06", shards=12,
    level_text="A-layer: a call owns regions (the buffers of its arguments and results, dense-matrix padding included) and "
               "every vector access must lie inside one of them and honour the alignment its instruction requires. I-layer: "
               "the access arithmetic of the encoders, of the 32x32 striping tiles and of the scoring kernels as functions of "
               "their parameters, model-checked in bounds for every length up to MaxL (the originally coded tile loop bound "
               "as negative control). Every safe-API call of the recorded campaigns (encode, stripe fresh / reused, f32 "
               "scoring permute / gather / SSE2 on full and sub-ranges, u8 scoring, arg-max / max; DNA and protein) runs with "
               "hook H2 armed: 110 instrumented load / store / gather sites log the exact pointer the intrinsic receives, the "
               "harness attributes each access to the nearest region, and TLC checks every site summary.",
    level_note="Decided only for the instrumented vector accesses of avx2.rs / sse2.rs (hook placement trusted: the hook takes "
               "the same pointer expression as the intrinsic, inserted mechanically). Not covered: reads of uninitialised "
               "memory (encode_raw, DenseMatrix::uninitialized), compiler-introduced accesses, safe-Rust indexing (its "
               "panics surface under the other properties), NEON, scan / sample (they only call the kernels above). "
               "Switching to a sanitizer would leave the technique family. Trusted: TLC, Json module.",
    rule="impl->spec: one event per call {kernel, parameters, regions, per-site (count, min offset, max end, misaligned)}; "
         "distinct_nontrivial = distinct (kernel, parameters).",
    assumptions=["a slice argument owns exactly len bytes (reads into spare Vec capacity count as out of bounds)",
                 "regions are taken from the objects after the call (buffers are not reallocated after the kernel ran)"])
