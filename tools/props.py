"""Per-property configuration of the checks (see DESIGN.md section 6)."""

PROPS = {}
NOT_APPLICABLE = {}
HOOK_COMMITS = ["8fb4223"]

DENSE_INV = ["TypeOK", "Refines", "EqRefines", "RowCount", "KeepOld", "NewDefault", "CloneEq", "Untouched", "IterOrder", "EmitReplay"]
PROPS["C19"] = dict(
    mc=[
        dict(name="MC_Dense", module="MC_Dense", view="View", invariants=DENSE_INV,
             constants=dict(C=2, K=3, Stride=3, Emit=False),
             quick=dict(MaxRows=2, MaxDepth=4), thorough=dict(MaxRows=3, MaxDepth=5),
             actions=["New", "Resize", "SetC", "Fill", "CloneOp", "Observe"]),
        dict(name="MC_Dense_replay", module="MC_Dense", invariants=DENSE_INV, emit=True,
             constants=dict(C=2, K=3, Stride=3, Emit=True),
             quick=dict(MaxRows=2, MaxDepth=3), thorough=dict(MaxRows=2, MaxDepth=4),
             actions=["New", "Resize", "SetC", "Fill", "CloneOp", "Observe"]),
    ],
    record=True, trace="Trace_C19",
    level_text="Bounded exhaustive model checking of the DenseMatrix state machine (two matrices, all operation "
               "histories to a fixed depth, storage model with padded rows refined against the logical table), every "
               "TLC behaviour replayed step by step on the real DenseMatrix, and seeded random histories of the real "
               "code at the listed element types / column counts validated by TLC against the same step function. "
               "Histories are the quantifier of C19, which is what a state-machine model enumerates.",
    level_note="Bounded (depth, 2-3 rows, 2 columns in MC); realistic column counts only through sampled histories; "
               "32-byte alignment case only; trusted: TLC, Json module, harness projection code.",
    rule="MC: every history of DenseMatrix operations up to MaxDepth on two C-column matrices (A-layer) with the "
         "stride/padding storage model in lock-step (I-layer). spec->impl: every complete behaviour of the replay "
         "model stepped through DenseMatrix<T,U2> for T in u8,u32,f32,i64. impl->spec: seeded random histories on "
         "DenseMatrix<T,C> for T x C in {u8,u32,f32,i64} x {1,5,7,16,21,32,43}; full contents of both matrices, "
         "observation and layout (stride, row address mod 32, row spacing) logged after every call and validated "
         "by TLC against Dense!DenseStep. distinct_nontrivial = distinct (type, columns, operation+arguments, "
         "row count before) tuples.",
    assumptions=["x86-64 alignment unit (32 bytes); the 16-byte case of other targets cannot execute here",
                 "unsafe DenseMatrix::uninitialized / ravel are exercised only through from_rows / fill",
                 "TLC, CommunityModules Json/IOUtils and the 20-line projection code of the harness are trusted"],
)
