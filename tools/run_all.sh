#!/bin/bash
# usage: tools/run_all.sh [quick|thorough] [IDs...]   - runs the checks sequentially, one summary line each
tier="${1:-quick}"; shift || true
ids="$@"; [ -z "$ids" ] && ids="C01 C02 C03 C04 C05 C06 C07 C08 C09 C10 C11 C12 C13 C14 C15 C16 C17 C18 C19"
cd "$(dirname "$(readlink -f "$0")")/.."
for p in $ids; do
  s=$(date +%s); out=$(./check $p $tier 2>&1); rc=$?; e=$(date +%s)
  echo "$p rc=$rc $((e-s))s $(echo "$out" | grep -E "OK \(|VIOLATION|TOOL-ERROR" | head -2 | tr '\n' ' ' | cut -c1-200)"
  echo "$out" | grep -E "^KNOWN-FINDING|^NOTE" | cut -c1-160
done
