//! C11 (MEME-style ScoreDistribution) and C12 / C13 (TFM-PVALUE): recorders (impl -> spec).
use generic_array::GenericArray;
use lightmotif::abc::{Alphabet, Background, Dna};
use lightmotif::dense::DenseMatrix;
use lightmotif::pwm::ScoringMatrix;
use lightmotif_tfmpvalue::TfmPvalue;
use rand::Rng;
use serde_json::{json, Value};

use crate::util::*;

type A = Dna;
const G: i64 = 4; // matrix cells are multiples of 1/4

struct Case {
    cells: Vec<Vec<i64>>, // grid units (1/g), 4 nucleotide columns
    bn: Vec<i64>,
    bd: i64,
    g: i64,               // 4 (default) or 16 (fine grid: larger rounding errors in TFM-PVALUE)
}

fn gen_case(rng: &mut impl Rng, m: usize, kind: usize) -> Case {
    let amp: i64 = match kind % 3 { 0 => 8, 1 => 20, _ => 40 };
    let cells = (0..m).map(|_| (0..4).map(|_| match kind % 4 {
        0 => rng.gen_range(-amp..=amp),
        1 => rng.gen_range(-amp..=amp) / 2 * 2,            // half-integers
        2 => rng.gen_range(-amp / 4..=amp / 4) * 4,        // integers
        _ => if rng.gen_bool(0.3) { rng.gen_range(0..=amp) } else { rng.gen_range(-amp..=0) },
    }).collect()).collect();
    let mut cells: Vec<Vec<i64>> = cells;
    if kind % 5 == 3 && m >= 2 {
        // one or two constant (zero-range) rows with a non-zero value, as user-built matrices may have
        for _ in 0..(1 + kind % 2) { let i = rng.gen_range(0..m); let c = [-6i64, -1, 3, 8][rng.gen_range(0..4)]; cells[i] = vec![c; 4]; }
    }
    let (bn, bd) = match kind % 4 {
        0 => (vec![1, 1, 1, 1], 4),
        1 => (vec![4, 1, 1, 2], 8),
        2 => (vec![3, 2, 2, 3], 10),
        _ => (vec![1, 3, 3, 1], 8),
    };
    Case { cells, bn, bd, g: G }
}

fn build(c: &Case) -> ScoringMatrix<A> {
    let mut d = DenseMatrix::<f32, <A as Alphabet>::K>::new(c.cells.len());
    for (i, row) in c.cells.iter().enumerate() {
        // a row of 4 cells leaves the wildcard at -inf (what count data gives); a row of 5 cells sets it too
        d[i][4] = f32::NEG_INFINITY;
        for (j, &x) in row.iter().enumerate() { d[i][j] = x as f32 / c.g as f32; }
    }
    let mut f: Vec<f32> = c.bn.iter().map(|&x| x as f32 / c.bd as f32).collect();
    if f.len() == 4 { f.push(0.0); }   // (a fifth numerator is the wildcard's own frequency)
    let ga: GenericArray<f32, <A as Alphabet>::K> = f.into_iter().collect();
    ScoringMatrix::new(Background::new(ga).expect("valid background"), d)
}

fn den(c: &Case) -> f64 { (c.bd as f64).powi(c.cells.len() as i32) }

/// probability -> numerator over bd^M (rounded) and whether it is exactly an integer
fn num(p: f64, den: f64) -> (i64, bool) {
    let y = p * den;
    (quant(y, 1.0), (y - y.round()).abs() < 1e-6)
}

fn attainable(c: &Case) -> Vec<i64> {
    let mut s: std::collections::BTreeSet<i64> = [0].into_iter().collect();
    for row in &c.cells {
        let mut n = std::collections::BTreeSet::new();
        for &a in &s { for (k, &x) in row.iter().enumerate() { if c.bn[k] > 0 { n.insert(a + x); } } }
        s = n;
    }
    s.into_iter().collect()
}

/// Three ways the wildcard can matter (all legal: "any background", "finite NON-wildcard entries"):
///   W1  scores -inf (what count data gives), background frequency of its own: a word holding an N has no finite score
///   W2  finite scores, background frequency 0: the column must be ignored
///   W3  finite scores and a frequency of its own: one more symbol of the word model (see `with_wildcard`)
/// W1 keeps K = 5 in the events (bn[5] > 0, column -inf); W2 / W3 are written with K = 6.
fn wildcard_variant(rng: &mut impl Rng, mut c: Case, which: usize) -> Case {
    match which % 3 {
        0 => { give_wildcard_frequency(&mut c); c }
        1 => {
            let lo = c.cells.iter().flatten().cloned().min().unwrap();
            let hi = c.cells.iter().flatten().cloned().max().unwrap();
            for row in c.cells.iter_mut() { let v = rng.gen_range(lo..=hi + 8); row.push(v); }
            c.bn.push(0);
            c
        }
        _ => with_wildcard(rng, c),
    }
}

fn kk_of(c: &Case) -> usize { c.cells[0].len() + 1 }

/// classification of the wildcard's role, logged with every event (the known findings are keyed on it)
fn wild_of(c: &Case) -> &'static str {
    match (c.cells[0].len() == 5, c.bn.len() == 5 && c.bn[4] > 0) {
        (false, false) => "none",
        (false, true) => "frequency_only",
        (true, false) => "finite_scores_zero_frequency",
        (true, true) => "finite_scores_and_frequency",
    }
}

/// The wildcard as one more symbol of the word model: finite wildcard scores and a background that gives the wildcard a
/// frequency of its own (bn doubled, one unit moved from the most frequent symbol to N).  In the events such a case is
/// written with K = 6: five ordinary symbols and an unused sixth column, so that the specification needs no special case.
fn with_wildcard(rng: &mut impl Rng, mut c: Case) -> Case {
    let lo = c.cells.iter().flatten().cloned().min().unwrap();
    let hi = c.cells.iter().flatten().cloned().max().unwrap();
    for row in c.cells.iter_mut() { let v = rng.gen_range(lo..=hi); row.push(v); }
    give_wildcard_frequency(&mut c);
    c
}

/// Move a little background mass to the wildcard.  Dyadic backgrounds are doubled first (still exact in f32); the
/// decimal one keeps its denominator (f32 cannot hold 0.3: a larger denominator would bring the library's own masses
/// within half a unit of the rational ones, which is where the midpoint queries of C13 live).
fn give_wildcard_frequency(c: &mut Case) {
    if c.bd != 10 {
        c.bn = c.bn.iter().map(|&x| 2 * x).collect();
        c.bd *= 2;
    }
    let j = (0..4).max_by_key(|&j| c.bn[j]).unwrap();
    c.bn[j] -= 1;
    c.bn.push(1);
}

/// background numerators for the event: one entry per column of `pssm_json` (K entries)
fn bn5(c: &Case) -> Vec<i64> { let mut b = c.bn.clone(); while b.len() < kk_of(c) { b.push(0); } b }

fn pssm_json(c: &Case) -> Vec<Vec<i64>> {
    c.cells.iter().map(|r| { let mut r = r.clone(); r.push(NINF); r }).collect()
}

// ------------------------------------------------------------------------------------------ C11

pub fn record_c11(rec: &mut Recorder, seed: u64, thorough: bool) {
    let mut rng = rng(seed, 11);
    let n = if thorough { 500 } else { 150 };
    for it in 0..n {
        let m = if it % 10 == 9 { rng.gen_range(7..=8) } else { 1 + it % 6 };
        let mut c = gen_case(&mut rng, m, it);
        // flat matrices (every finite entry the same integer, e.g. the log-odds of equal counts): offset = largest entry
        if it % 12 == 7 { let v = [0i64, 8, -12, 4][(it / 12) % 4]; for row in c.cells.iter_mut() { for x in row.iter_mut() { *x = v; } } rec.class("flat_matrix"); }
        let c = if it % 4 == 2 && m <= 6 { wildcard_variant(&mut rng, c, it / 4) } else { c };
        let kk = kk_of(&c);
        let dn = den(&c);
        let r = guarded(|| {
            let pssm = build(&c);
            let dist = pssm.to_score_distribution();
            let sf = dist.sf();
            // structural part on the whole table: non-increasing, in [0,1]
            let mut mono = true; let mut inrange = true;
            for i in 0..sf.len() { if !(0.0..=1.0).contains(&sf[i]) { inrange = false; } if i > 0 && sf[i] > sf[i - 1] { mono = false; } }
            // queries: every attainable score, one grid step around them, below min, above max
            let att = attainable(&c);
            let mut qs: Vec<i64> = Vec::new();
            let lo = att[0]; let hi = att[att.len() - 1];
            for &a in att.iter().take(60) { qs.push(a); qs.push(a + 1); qs.push(a - 1); }
            if att.len() > 60 { for _ in 0..60 { qs.push(att[rng.gen_range(0..att.len())]); } }
            qs.extend([lo - 9, lo - 1, hi + 1, hi + 13, (lo + hi) / 2]);
            // far outside the table on both sides (the scaled score is negative / beyond the last index)
            qs.extend([lo - 41, lo - 400, lo - 40000, hi + 400, hi + 40000]);
            qs.sort(); qs.dedup();
            let pv: Vec<Value> = qs.iter().map(|&s4| {
                let (n_, ex) = num(dist.pvalue(s4 as f32 / G as f32), dn);
                json!([s4, n_, if ex { 1 } else { 0 }])
            }).collect();
            // scores no table index can represent (the scaled score leaves the 32-bit range, or is infinite): p = 0 far
            // above the maximum, the whole mass far below the minimum
            let far: Vec<Value> = [(1i64, 3.0e7f32), (1, 1.0e9), (1, f32::MAX), (1, f32::INFINITY), (-1, -3.0e7), (-1, -1.0e9), (-1, f32::MIN), (-1, f32::NEG_INFINITY)]
                .iter().map(|&(sg, x)| { let (n_, ex) = num(dist.pvalue(x), dn); json!([sg, n_, if ex { 1 } else { 0 }]) }).collect();
            // p-value -> score -> p-value round trip
            let mut inv = Vec::new();
            let fits = dn * 1000.0 < 2.0e9; // the spec cross-multiplies numerators with pd in 32-bit integers
            for &(pn, pd) in &[(1i64, 2i64), (1, 4), (1, 10), (1, 100), (1, 1000), (3, 4), (9, 10), (1, 3), (999, 1000), (1, 64)] {
                let t = dist.score(pn as f64 / pd as f64);
                let (n2, _) = num(dist.pvalue(t), dn);
                if fits { inv.push(json!([pn, pd, n2])); }
            }
            json!({"sf_len": sf.len(), "sf_mono": mono, "sf_inrange": inrange, "pv": pv, "inv": inv, "far": far})
        });
        rec.reset();
        rec.class(&format!("M{}", m.min(7)));
        rec.nontrivial(&(c.cells.clone(), c.bn.clone()));
        if kk == 6 || c.bn.len() == 5 { rec.class("wildcard_variant"); }
        let mut e = json!({"ev":"dist","wild":wild_of(&c),"K":kk,"G":G,"pssm":pssm_json(&c),"bn":bn5(&c),"bd":c.bd,"den":dn as i64});
        match r {
            Ok(v) => { e["ret"] = json!("ok"); for (k, x) in v.as_object().unwrap() { e[k] = x.clone(); } }
            Err(msg) => { e["ret"] = json!("panic"); e["msg"] = json!(msg); }
        }
        rec.emit(e);
    }
    tiny_tail_c11(rec, &mut rng, thorough);
}

/// The extreme upper tail of the MEME-style table: background (61, 1, 1, 1) / 64, width 10 (bd^M = 2^60), scores near the
/// maximum, whose exact tails are small integers over 2^56 (event field `sat`: saturating distribution in the specification).
fn tiny_tail_c11(rec: &mut Recorder, rng: &mut impl Rng, thorough: bool) {
    for it in 0..(if thorough { 24 } else { 8 }) {
        // width 10 over (61, 1, 1, 1) / 64: a prefix of nine rare symbols has probability 2^-54, below the f64 epsilon
        let m = 10;
        let f = it % 4;
        let spaced = it % 2 == 0;
        let cells: Vec<Vec<i64>> = (0..m).map(|_| (0..4).map(|k| if k == f { rng.gen_range(-8..=0) }
            else if spaced { [0i64, 36, 44, 80][rng.gen_range(0..4)] } else { rng.gen_range(0..=20) }).collect()).collect();
        let mut bn = vec![1i64; 4];
        bn[f] = 61;
        let c = Case { cells, bn, bd: 64, g: G };
        let dnf = 64f64.powi(m as i32);
        let tl = tails(&c);
        let r = guarded(|| {
            let pssm = build(&c);
            let dist = pssm.to_score_distribution();
            let sf = dist.sf();
            let mut mono = true; let mut inrange = true;
            for i in 0..sf.len() { if !(0.0..=1.0).contains(&sf[i]) { inrange = false; } if i > 0 && sf[i] > sf[i - 1] { mono = false; } }
            let mut qs: Vec<i64> = Vec::new();
            for &(sc, nn) in tl.iter() { if nn < (1 << 20) { qs.push(sc); qs.push(sc - 1); qs.push(sc - 3); } }
            qs.sort(); qs.dedup();
            let pv: Vec<Value> = qs.iter().map(|&s4| {
                let y = dist.pvalue(s4 as f32 / G as f32) * dnf;
                json!([s4, if y < 8.0e6 { y.round() as i64 } else { 8388608 }, if (y - y.round()).abs() < 1e-6 { 1 } else { 0 }])
            }).collect();
            json!({"sf_len": sf.len(), "sf_mono": mono, "sf_inrange": inrange, "pv": pv, "inv": []})
        });
        rec.reset();
        rec.class("extreme_upper_tail");
        rec.nontrivial(&(c.cells.clone(), c.bn.clone()));
        let mut e = json!({"ev":"dist","wild":"none","K":5,"G":G,"pssm":pssm_json(&c),"bn":bn5(&c),"bd":c.bd,"den":0,"sat":8388608});
        match r {
            Ok(v) => { e["ret"] = json!("ok"); for (k, x) in v.as_object().unwrap() { e[k] = x.clone(); } }
            Err(msg) => { e["ret"] = json!("panic"); e["msg"] = json!(msg); }
        }
        rec.emit(e);
    }
}

// ------------------------------------------------------------------------------------------ C12 / C13

fn fine_case(rng: &mut impl Rng, it: usize) -> Case {
    let m = 2 + it % 4; // 2..5
    let mut c = gen_case(rng, m, it);
    c.g = 16;
    for row in c.cells.iter_mut() { for x in row.iter_mut() { *x = rng.gen_range(-48..=48); } }
    c
}

/// 1/16-grid matrices whose row minima are -(k + 0.3125) or -(k + 0.8125): the row offsets -floor(min / g) at g = 0.01
/// are then 8 units short of ten times the offsets at g = 0.1 in every row (what a refinement window carried over in
/// offset units would be displaced by).
fn displacing_case(rng: &mut impl Rng, it: usize) -> Case {
    let mut c = fine_case(rng, it);
    if c.cells.len() < 4 && it % 2 == 0 { let extra = c.cells[0].clone(); c.cells.push(extra); }
    for row in c.cells.iter_mut() {
        let mn = -(16 * rng.gen_range(0..3i64) + if rng.gen_bool(0.5) { 5 } else { 13 });
        let j = rng.gen_range(0..4);
        for (k, x) in row.iter_mut().enumerate().take(4) {
            // the other cells: small rounding error at g = 0.1 (cell * 0.625 has fractional part 0, .125 or .25), so
            // that the accumulated error bound - hence the window margin - stays small
            if k == j { *x = mn; } else { let v: i64 = rng.gen_range(mn + 1..=48); *x = (v - v.rem_euclid(8) + [0, 5, 2][rng.gen_range(0..3)]).max(mn + 1); }
        }
    }
    c
}

/// exact tail numerators (over bd^M) of every attainable score, in decreasing score order
fn tails(c: &Case) -> Vec<(i64, i64)> {
    let mut dist: std::collections::BTreeMap<i64, i64> = [(0, 1)].into_iter().collect();
    for row in &c.cells {
        let mut n = std::collections::BTreeMap::new();
        for (&a, &w) in &dist { for (k, &x) in row.iter().enumerate() { *n.entry(a + x).or_insert(0) += w * c.bn[k]; } }
        dist = n;
    }
    let mut out = Vec::new();
    let mut acc = 0i64;
    for (&sc, &w) in dist.iter().rev() { acc += w; out.push((sc, acc)); }
    out
}

fn tfm_case(rng: &mut impl Rng, it: usize) -> Case {
    let m = 2 + it % 5; // 2..6
    gen_case(rng, m, it)
}

/// A regular symbol with a tiny but non-zero background frequency (2^-24) that carries the best score of every row: the
/// top of the distribution consists of words holding it.  bd^M = 2^(24 M) leaves 32 bits: `sat` events, numerators clamped.
fn tiny_frequency_c12(rec: &mut Recorder, rng: &mut impl Rng, thorough: bool) {
    const CAP: f64 = 8388608.0;
    for it in 0..(if thorough { 16 } else { 6 }) {
        let m = 2 + it % 2;
        let f = it % 4;
        let cells: Vec<Vec<i64>> = (0..m).map(|_| (0..4).map(|k| if k == f { rng.gen_range(24..=40) } else { rng.gen_range(-10..=10) }).collect()).collect();
        let mut bn: Vec<i64> = Vec::new();
        let mut others = vec![(1i64 << 23) - 1, 1 << 22, 1 << 22].into_iter();
        for k in 0..4 { bn.push(if k == f { 1 } else { others.next().unwrap() }); }
        let c = Case { cells, bn, bd: 1 << 24, g: G };
        let dnf = (2f64).powi(24 * m as i32);
        let pssm = build(&c);
        let hi2 = 2 * c.cells.iter().map(|r| *r.iter().max().unwrap()).sum::<i64>();
        for dq in [0i64, 1, 3, 5, 7, 9, 12, 16, 24] {
            let s8 = hi2 - dq;
            let r = guarded(|| {
                let mut t = TfmPvalue::new(&pssm);
                let mut iters = Vec::new();
                for (k, it) in t.approximate_pvalue(s8 as f64 / (2 * c.g) as f64).enumerate() {
                    let a = (*it.range.start() * dnf).min(CAP);
                    let b = (*it.range.end() * dnf).min(CAP);
                    let gk = (1.0 / it.granularity).round() as i64;
                    iters.push(json!({"k": k + 1, "ginv": gk, "pmin": a.round() as i64, "pmax": b.round() as i64,
                                      "exact": if (a - a.round()).abs() < 1e-6 && (b - b.round()).abs() < 1e-6 {1} else {0}, "conv": it.converged}));
                    if k >= 4 { break; }
                }
                iters
            });
            rec.reset();
            rec.class("tfm_pvalue");
            rec.class("regular_symbol_with_frequency_2^-24");
            rec.nontrivial(&(c.cells.clone(), c.bn.clone(), s8));
            let mut e = json!({"ev":"tfm_pvalue","wild":"none","K":5,"G":c.g,"pssm":pssm_json(&c),"bn":bn5(&c),"bd":0,"den":0,"sat":8388608,"s8":s8});
            match r { Ok(v) => { e["ret"] = json!("ok"); e["iters"] = json!(v); } Err(msg) => { e["ret"] = json!("panic"); e["msg"] = json!(msg); e["iters"] = json!([]); } }
            rec.emit(e);
        }
    }
}

/// Queries just above an attainable score (s = a + 3e-8): the range cannot collapse before the granularity is finer than
/// that distance, so the refinement runs through g = 1e-7 .. 1e-10 (events carry `eps`; see Trace_Tfm!EpsHi / EpsLo).
fn near_attainable_c12(rec: &mut Recorder, rng: &mut impl Rng, thorough: bool) {
    for it in 0..(if thorough { 40 } else { 12 }) {
        let m = 2 + it % 4;
        let mut c = gen_case(rng, m, it);
        if c.bd == 10 { c.bn = vec![1, 3, 3, 1]; c.bd = 8; }      // dyadic backgrounds only: numerators are then exact at every step
        let dn = den(&c);
        let att = attainable(&c);
        let pssm = build(&c);
        for _ in 0..(if thorough { 5 } else { 3 }) {
            let a = att[rng.gen_range(0..att.len())];
            let s = a as f64 / c.g as f64 + 3.0e-8;
            let r = guarded(|| {
                let mut t = TfmPvalue::new(&pssm);
                let mut iters = Vec::new();
                for (k, it) in t.approximate_pvalue(s).enumerate() {
                    let (pa, ea) = num(*it.range.start(), dn);
                    let (pb, eb) = num(*it.range.end(), dn);
                    let gk = if k + 1 <= 9 { 10i64.pow(k as u32 + 1) } else { 1_000_000_000 };
                    iters.push(json!({"k": k + 1, "ginv": gk, "pmin": pa, "pmax": pb, "exact": if ea && eb {1} else {0}, "conv": it.converged}));
                    if k >= 12 { break; }
                }
                iters
            });
            rec.reset();
            rec.class("tfm_pvalue");
            rec.class("query_just_above_an_attainable_score");
            rec.nontrivial(&(c.cells.clone(), c.bn.clone(), a));
            let mut e = json!({"ev":"tfm_pvalue","wild":"none","eps":1,"K":5,"G":c.g,"pssm":pssm_json(&c),"bn":bn5(&c),"bd":c.bd,"den":dn as i64,"s8":2 * a});
            match r { Ok(v) => { if v.len() >= 8 { rec.class("refined_below_1e-7"); } e["ret"] = json!("ok"); e["iters"] = json!(v); } Err(msg) => { e["ret"] = json!("panic"); e["msg"] = json!(msg); e["iters"] = json!([]); } }
            rec.emit(e);
        }
    }
}

pub fn record_c12(rec: &mut Recorder, seed: u64, thorough: bool) {
    let mut rng = rng(seed, 12);
    let n = if thorough { 260 } else { 60 };
    for it in 0..n {
        let c = if it % 3 == 2 { fine_case(&mut rng, it) } else { tfm_case(&mut rng, it) };
        let c = if it % 4 == 3 && c.cells.len() <= 5 { rec.class("wildcard_variant"); wildcard_variant(&mut rng, c, it / 4) } else { c };
        let dn = den(&c);
        let att = attainable(&c);
        let u = 2 * c.g;   // query scores in units of 1/(2g): on the grid and half a step above it
        let (lo, hi) = (att[0], att[att.len() - 1]);
        // queries in units of 1/8: below min, above max, attainable, just above an attainable value
        let mut qs: Vec<i64> = vec![2 * lo - 16, 2 * lo - 1, 2 * lo, 2 * hi, 2 * hi + 1, 2 * hi + 24];
        for _ in 0..(if thorough { 10 } else { 6 }) { let a = att[rng.gen_range(0..att.len())]; qs.push(2 * a); qs.push(2 * a + 1); }
        qs.sort(); qs.dedup();
        let pssm = build(&c);
        // every other matrix: ONE TfmPvalue object answers all the queries in sequence (state left behind by a query -
        // in particular one that stopped at the first granularity - must not leak into the next)
        let shared = it % 2 == 0;
        let mut shared_t = TfmPvalue::new(&pssm);
        if shared { qs.reverse(); qs.rotate_left(it % 3); }
        for s8 in qs {
            let r = guarded(|| {
                let mut fresh_t = TfmPvalue::new(&pssm);
                let t = if shared { &mut shared_t } else { &mut fresh_t };
                let mut iters = Vec::new();
                for (k, it) in t.approximate_pvalue(s8 as f64 / u as f64).enumerate() {
                    let (a, ea) = num(*it.range.start(), dn);
                    let (b, eb) = num(*it.range.end(), dn);
                    let gk = (1.0 / it.granularity).round() as i64; // 10^k
                    iters.push(json!({"k": k + 1, "ginv": gk, "pmin": a, "pmax": b, "exact": if ea && eb {1} else {0}, "conv": it.converged}));
                    if k >= 4 { break; }
                }
                iters
            });
            rec.reset();
            rec.class("tfm_pvalue");
            if shared { rec.class("reused_TfmPvalue_object"); }
            if c.g == 16 { rec.class("fine_grid_matrix"); }
            rec.class(if s8 < 2 * lo { "below_min" } else if s8 > 2 * hi { "above_max" } else if s8 % 2 == 0 { "on_grid" } else { "just_above_grid" });
            rec.nontrivial(&(c.cells.clone(), c.bn.clone(), s8));
            let mut e = json!({"ev":"tfm_pvalue","wild":wild_of(&c),"K":kk_of(&c),"G":c.g,"pssm":pssm_json(&c),"bn":bn5(&c),"bd":c.bd,"den":dn as i64,"s8":s8});
            match r { Ok(v) => { e["ret"] = json!("ok"); e["iters"] = json!(v); } Err(msg) => { e["ret"] = json!("panic"); e["msg"] = json!(msg); e["iters"] = json!([]); } }
            rec.emit(e);
        }
    }
    tiny_frequency_c12(rec, &mut rng, thorough);
    near_attainable_c12(rec, &mut rng, thorough);
}

pub fn record_c13(rec: &mut Recorder, seed: u64, thorough: bool) {
    let mut rng = rng(seed, 13);
    let n = if thorough { 260 } else { 70 };
    for it in 0..n {
        let c = if it % 3 == 2 { displacing_case(&mut rng, it) } else if it % 2 == 1 { fine_case(&mut rng, it) } else { tfm_case(&mut rng, it) };
        let c = if it % 7 == 6 && c.cells.len() <= 5 { rec.class("wildcard_variant"); wildcard_variant(&mut rng, c, it / 7) } else { c };
        let dn = den(&c) as i64;
        let pssm = build(&c);
        // p-values: small fractions, and (quantifier of C13) attainable tail probabilities n / den and the
        // midpoints (2n + 1) / (2 den) between them; p = pn / (pc * den) when pc > 0, pn / pd otherwise
        let mut ps: Vec<(i64, i64, i64)> = vec![(1, 2, 0), (1, 10, 0), (3, 4, 0), (1, 3, 0), (1, 1000.min(dn), 0)];
        let tl = tails(&c);
        let mut picks: Vec<usize> = (0..tl.len().saturating_sub(1)).collect();
        let displacing = it % 3 == 2;
        while picks.len() > (if thorough { if displacing { 90 } else { 40 } } else if displacing { 45 } else { 16 }) { let j = rng.gen_range(0..picks.len()); picks.remove(j); }
        for j in picks {
            let nn = tl[j].1;
            if nn > 0 && nn < dn { ps.push((nn, 0, 1)); ps.push((2 * nn + 1, 0, 2)); if nn > 1 { ps.push((2 * nn - 1, 0, 2)); } }
        }
        let shared = it % 2 == 0;
        let mut shared_t = TfmPvalue::new(&pssm);
        for (qi, &(pn, pd, pc)) in ps.iter().enumerate() {
            let p = if pc > 0 { pn as f64 / (pc * dn) as f64 } else { pn as f64 / pd as f64 };
            if !(p > 0.0 && p < 1.0) { continue; }
            // on a shared object, every third query is preceded by an abandoned one (only its first step consumed)
            if shared && qi % 3 == 1 { let _ = guarded(|| { let _ = shared_t.approximate_score(p).next(); }); }
            let r = guarded(|| {
                let mut fresh_t = TfmPvalue::new(&pssm);
                let t = if shared { &mut shared_t } else { &mut fresh_t };
                let mut iters = Vec::new();
                for (k, it) in t.approximate_score(p).enumerate() {
                    let gk = (1.0 / it.granularity).round() as i64;
                    let tk = (it.score / it.granularity).round();
                    let off = (it.score / it.granularity - tk).abs() > 1e-3;
                    iters.push(json!({"k": k + 1, "ginv": gk, "tk": tk as i64, "offgrid": if off {1} else {0}, "conv": it.converged}));
                    if k >= 4 { break; }
                }
                iters
            });
            rec.reset();
            rec.class("tfm_score");
            rec.class(if pc > 0 { "p_attainable_tail_or_midpoint" } else { "p_small_fraction" });
            if shared { rec.class("reused_TfmPvalue_object"); }
            if c.g == 16 { rec.class("fine_grid_matrix"); }
            if displacing { rec.class("row_offsets_not_scaling_with_granularity"); }
            rec.nontrivial(&(c.cells.clone(), c.bn.clone(), pn, pd, pc));
            let mut e = json!({"ev":"tfm_score","wild":wild_of(&c),"K":kk_of(&c),"G":c.g,"pssm":pssm_json(&c),"bn":bn5(&c),"bd":c.bd,"den":dn,"pn":pn,"pd":pd.max(1),"pc":pc});
            match r { Ok(v) => { e["ret"] = json!("ok"); e["iters"] = json!(v); } Err(msg) => { e["ret"] = json!("panic"); e["msg"] = json!(msg); e["iters"] = json!([]); } }
            rec.emit(e);
        }
    }
    tiny_p(rec, &mut rng, thorough);
}


/// p of the order of 1e-17: a background (125, 1, 1, 1) / 128 whose rare symbols carry the high scores, width 6..8, so
/// that the best words are rarer than the f64 epsilon.  bd^M does not fit the 32-bit integers of TLC: the event carries
/// `sat` (cap of the saturating distribution of Dist.tla) instead of a usable `den`, and p = pn / (pc * 128^M) with small pn.
fn tiny_p(rec: &mut Recorder, rng: &mut impl Rng, thorough: bool) {
    let n = if thorough { 40 } else { 12 };
    for it in 0..n {
        // width 8: 128^8 = 2^56, so p = pn / (pc 2^56) with pn / pc <= 15 is below the f64 epsilon; every other matrix has
        // widely spaced scores (the best words are then alone within (M + 2) g of the maximum)
        let m = if it % 4 == 3 { 7 } else { 8 };
        let f = it % 4;
        let spaced = it % 2 == 0;
        let cells: Vec<Vec<i64>> = (0..m).map(|_| (0..4).map(|k| if k == f { rng.gen_range(-8..=0) }
            else if spaced { [0i64, 36, 44, 80][rng.gen_range(0..4)] } else { rng.gen_range(0..=20) }).collect()).collect();
        let mut bn = vec![1i64; 4];
        bn[f] = 125;
        let c = Case { cells, bn, bd: 128, g: G };
        let pssm = build(&c);
        let tl = tails(&c);
        let dnf = 128f64.powi(m as i32);
        let mut ps: Vec<(i64, i64)> = Vec::new();   // (pn, pc)
        for &(_, nn) in tl.iter().take(if thorough { 14 } else { 8 }) {
            if nn > 0 && nn < (1 << 20) { ps.push((nn, 1)); ps.push((2 * nn + 1, 2)); if nn > 1 { ps.push((2 * nn - 1, 2)); } }
        }
        ps.sort(); ps.dedup();
        for &(pn, pc) in &ps {
            let p = pn as f64 / (pc as f64 * dnf);
            let r = guarded(|| {
                let mut t = TfmPvalue::new(&pssm);
                let mut iters = Vec::new();
                for (k, it) in t.approximate_score(p).enumerate() {
                    let gk = (1.0 / it.granularity).round() as i64;
                    let tk = (it.score / it.granularity).round();
                    let off = (it.score / it.granularity - tk).abs() > 1e-3;
                    iters.push(json!({"k": k + 1, "ginv": gk, "tk": tk as i64, "offgrid": if off {1} else {0}, "conv": it.converged}));
                    if k >= 4 { break; }
                }
                iters
            });
            rec.reset();
            rec.class("tfm_score");
            rec.class("p_below_f64_epsilon");
            rec.nontrivial(&(c.cells.clone(), c.bn.clone(), pn, pc));
            let mut e = json!({"ev":"tfm_score","K":5,"G":c.g,"pssm":pssm_json(&c),"bn":bn5(&c),"bd":c.bd,"den":0,"sat":8388608,"pn":pn,"pd":1,"pc":pc});
            match r { Ok(v) => { e["ret"] = json!("ok"); e["iters"] = json!(v); } Err(msg) => { e["ret"] = json!("panic"); e["msg"] = json!(msg); e["iters"] = json!([]); } }
            rec.emit(e);
        }
    }
}

/// Diagnostic only (`lmconform explore C13 - --seed N`): how often each matrix family exposes a final threshold that is
/// further than (M + 2) g from the exact one.  Not part of any check; used to design the drivers.
pub fn explore_c13(seed: u64) {
    let mut rng = rng(seed, 1300);
    for fam in ["tfm", "fine", "displacing", "wildbg"] {
        let (mut cases, mut queries, mut bad, mut badcases) = (0, 0, 0, 0);
        for it in 0..120 {
            let c = match fam { "tfm" => tfm_case(&mut rng, it), "fine" => fine_case(&mut rng, it), "displacing" => displacing_case(&mut rng, it),
                _ => { // the wildcard has a frequency of its own (scores -inf): words holding an N never reach a finite score
                    let mut c = tfm_case(&mut rng, it);
                    c.bn = c.bn.iter().map(|&x| 2 * x).collect(); c.bd *= 2;
                    let j = (0..4).max_by_key(|&j| c.bn[j]).unwrap(); c.bn[j] -= 1; c.bn.push(1); c } };
            let dn = den(&c) as i64;
            let pssm = build(&c);
            let tl = tails(&c);
            let m = c.cells.len() as f64;
            cases += 1;
            let mut anybad = false;
            for j in 0..tl.len().saturating_sub(1) {
                let nn = tl[j].1;
                if nn <= 0 || nn >= dn { continue; }
                let p = (2 * nn + 1) as f64 / (2 * dn) as f64;
                let exact = tl[j].0 as f64 / c.g as f64;         // smallest attainable score whose tail is <= p
                let _ = exact;
                let r = guarded(|| { let mut t = TfmPvalue::new(&pssm); t.approximate_score(p).map(|it| (it.score, it.granularity)).collect::<Vec<_>>() });
                queries += 1;
                let tail = |x: f64| -> f64 { // P(S >= x) as a numerator
                    let mut best = 0i64;
                    for &(sc, acc) in tl.iter() { if sc as f64 / c.g as f64 >= x - 1e-9 { best = acc; } else { break; } }
                    best as f64
                };
                match r {
                    Ok(steps) => for (t, g) in steps {
                        let d = (m + 2.0) * g;
                        let c1 = tail(t + d) <= p * dn as f64 + 1e-9;
                        let u = tl.iter().map(|x| x.0 as f64 / c.g as f64).filter(|&x| x < t - d - 1e-9).fold(f64::NEG_INFINITY, f64::max);
                        let c2 = !u.is_finite() || tail(u - d) >= p * dn as f64 - 1e-9;
                        if !(c1 && c2) { bad += 1; anybad = true; if fam == "wildbg" && bad <= 6 { println!("  bad: cells={:?} bn={:?}/{} p={}/{} t={} g={} c1={} c2={} u={} tail(t+d)={} tail(u-d)={}", c.cells, c.bn, c.bd, 2 * nn + 1, 2 * dn, t, g, c1, c2, u, tail(t + d), tail(u - d)); } break; }
                    },
                    Err(m) => { bad += 1; anybad = true; if fam == "wildbg" && bad <= 6 { println!("  panic: {} cells={:?} bn={:?}/{} p={}/{}", m, c.cells, c.bn, c.bd, 2 * nn + 1, 2 * dn); } }
                }
            }
            if anybad { badcases += 1; }
        }
        println!("{}: {} cases, {} with a bad query; {} queries, {} bad", fam, cases, badcases, queries, bad);
    }
}
