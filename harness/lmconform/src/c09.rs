//! C09 (conversions) and C10 (reverse complement): recorders (impl -> spec).
use generic_array::GenericArray;
use lightmotif::abc::{Alphabet, Background, ComplementableAlphabet, Dna, Protein, Pseudocounts, Symbol};
use lightmotif::dense::DenseMatrix;
use lightmotif::num::*;
use lightmotif::pli::{Pipeline, Stripe};
use lightmotif::pwm::{CountMatrix, FrequencyMatrix, ScoringMatrix, WeightMatrix};
use lightmotif::seq::EncodedSequence;
use rand::Rng;
use serde_json::{json, Value};

use crate::pipe::*;
use crate::util::*;

const Q12: f64 = 4096.0;
const Q10: f64 = 1024.0;

fn qmat<A: Abc>(m: &DenseMatrix<f32, A::K>, q: f64) -> Vec<Vec<i64>> {
    (0..m.rows()).map(|i| m[i].iter().map(|&x| quant(x as f64, q)).collect()).collect()
}

fn counts_dense<A: Abc>(c: &[Vec<u32>]) -> DenseMatrix<u32, A::K> {
    let mut d = DenseMatrix::<u32, A::K>::new(c.len());
    for (i, row) in c.iter().enumerate() {
        d[i].copy_from_slice(row);
    }
    d
}

fn gen_counts<A: Abc>(rng: &mut impl Rng, m: usize) -> Vec<Vec<u32>> {
    let n0: u32 = rng.gen_range(1..=24);
    // "any count data": one matrix in four has rows with different totals (CountMatrix::new accepts them)
    let unequal = rng.gen_bool(0.25);
    (0..m)
        .map(|_| {
            let n = if unequal { rng.gen_range(1..=n0 + 3) } else { n0 };
            // distribute n sequences over the symbols (sparse rows are common in real motifs)
            let mut row = vec![0u32; A::KK];
            for _ in 0..n {
                let k = if rng.gen_bool(0.08) { A::KK - 1 } else if rng.gen_bool(0.5) { rng.gen_range(0..(A::KK - 1).min(3)) } else { rng.gen_range(0..A::KK - 1) };
                row[k] += 1;
            }
            row
        })
        .collect()
}

/// pseudocounts as numerators over a common denominator (wildcard gets 0 for the scalar form)
fn gen_pseudo<A: Abc>(rng: &mut impl Rng) -> (Vec<i64>, i64, bool) {
    let (pn, pd): (i64, i64) = [(0, 1), (1, 10), (1, 2), (1, 1), (1, 4), (3, 4)][rng.gen_range(0..6)];
    if rng.gen_bool(0.6) {
        let mut v = vec![pn; A::KK];
        v[A::KK - 1] = 0;
        (v, pd, true)
    } else {
        let v: Vec<i64> = (0..A::KK).map(|_| rng.gen_range(0..=3)).collect();
        (v, 4, false)
    }
}

fn pseudo_of<A: Abc>(pn: &[i64], pd: i64, scalar: bool) -> Pseudocounts<A> {
    if scalar {
        Pseudocounts::from(pn[0] as f32 / pd as f32)
    } else {
        let ga: GenericArray<f32, A::K> = pn.iter().map(|&x| x as f32 / pd as f32).collect();
        Pseudocounts::from(ga)
    }
}

/// backgrounds with small denominators; wildcard frequency 0 (as the library's own backgrounds)
fn gen_bg<A: Abc>(rng: &mut impl Rng) -> (Vec<i64>, i64) {
    let k = A::KK - 1;
    match rng.gen_range(0..4) {
        0 => { let mut v = vec![1i64; k]; v.push(0); (v, k as i64) }                       // uniform
        1 if k == 4 => if rng.gen_bool(0.3) { (vec![2, 0, 1, 1, 0], 4) } else { (vec![4, 1, 1, 2, 0], 8) }, // zero for a real symbol / dyadic
        2 if k == 4 => if rng.gen_bool(0.4) { (vec![2, 2, 2, 1, 1], 8) } else { (vec![3, 2, 2, 3, 0], 10) },  // wildcard with its own frequency / decimal, strand-symmetric
        3 if k == 4 => (vec![1, 4, 2, 1, 0], 8),
        _ => {
            // protein: dyadic weights 1,2,... normalised to 32
            let mut v = vec![1i64; k];
            let mut left = 32 - k as i64;
            // one protein background in three gives the wildcard a frequency of its own
            let wild = if rng.gen_bool(0.33) { 2 } else { 0 };
            left -= wild;
            while left > 0 { let j = rng.gen_range(0..k); v[j] += 1; left -= 1; }
            v.push(wild);
            (v, 32)
        }
    }
}

fn bg_of<A: Abc>(bn: &[i64], bd: i64) -> Result<Background<A>, lightmotif::err::InvalidData> {
    let ga: GenericArray<f32, A::K> = bn.iter().map(|&x| x as f32 / bd as f32).collect();
    Background::new(ga)
}

fn conversions<A: Abc>(rec: &mut Recorder, rng: &mut impl Rng, n: usize) {
    for it in 0..n {
        let m = rng.gen_range(1..=10);
        let counts = gen_counts::<A>(rng, m);
        let (pn, pd, scalar) = gen_pseudo::<A>(rng);
        let (bn, bd) = gen_bg::<A>(rng);
        let base = json!({"abc":A::NAME,"K":A::KK,"m":counts,"pn":pn,"pd":pd,"bn":bn,"bd":bd});
        let r = guarded(|| -> Vec<Value> {
            let mut out = Vec::new();
            let cm = CountMatrix::<A>::new(counts_dense::<A>(&counts)).unwrap();
            let fm = cm.to_freq(pseudo_of::<A>(&pn, pd, scalar));
            let mut e = base.clone(); e["ev"] = json!("to_freq"); e["q"] = json!(qmat::<A>(fm.matrix(), Q12)); out.push(e);
            let bg = match bg_of::<A>(&bn, bd) {
                Ok(b) => b,
                Err(_) => { let mut e = base.clone(); e["ev"] = json!("bg_new"); e["fn"] = json!(bn); e["fd"] = json!(bd); e["ret"] = json!("err"); out.push(e); return out; }
            };
            let wm = fm.to_weight(bg.clone());
            let mut e = base.clone(); e["ev"] = json!("to_weight"); e["q"] = json!(qmat::<A>(wm.matrix(), Q12)); out.push(e);
            // ... and the weights recovered from the base-2 log-odds through the conversion trait
            let back = WeightMatrix::<A>::from(wm.to_scoring());
            let mut e = base.clone(); e["ev"] = json!("to_weight"); e["route"] = json!("WeightMatrix::from(scoring)"); e["q"] = json!(qmat::<A>(back.matrix(), Q12)); out.push(e);
            // log-odds through every route
            let (basen, based): (i64, i64) = [(2, 1), (4, 1), (10, 1), (11, 4), (8, 1)][it % 5];
            let routes: Vec<(&str, ScoringMatrix<A>, i64, i64)> = vec![
                ("freq.to_scoring", fm.to_scoring(bg.clone()), 2, 1),
                ("freq.into_scoring", fm.clone().into_scoring(bg.clone()), 2, 1),
                ("weight.to_scoring", wm.to_scoring(), 2, 1),
                ("weight.to_scoring_with_base", wm.to_scoring_with_base(basen as f32 / based as f32), basen, based),
                ("ScoringMatrix::from(weight)", ScoringMatrix::from(wm.clone()), 2, 1),
            ];
            for (name, sm, bn_, bd_) in routes {
                let mut e = base.clone();
                e["ev"] = json!("to_scoring"); e["route"] = json!(name); e["basen"] = json!(bn_); e["based"] = json!(bd_);
                e["q"] = json!(qmat::<A>(sm.matrix(), Q10));
                e["min"] = json!(quant(sm.min_score() as f64, Q10)); e["max"] = json!(quant(sm.max_score() as f64, Q10));
                e["bgq"] = json!(sm.background().frequencies().iter().map(|&x| quant(x as f64, Q12)).collect::<Vec<_>>());
                out.push(e);
            }
            // a chain of rescales (history on one weight matrix): the result must be the weights under the LAST
            // background, report that background, and give its log-odds
            {
                let (b2, _) = gen_bg_second::<A>(&bn, bd);
                let (b3, _) = gen_bg_second::<A>(&b2, bd);
                let chain: Vec<Vec<i64>> = match it % 3 { 0 => vec![b2.clone(), b3.clone()], 1 => vec![b2.clone(), bn.clone()], _ => vec![b2.clone(), b3.clone(), b2.clone()] };
                let mut cur = wm.clone();
                let mut okc = true;
                for b in &chain { match bg_of::<A>(b, bd) { Ok(bb) => cur = cur.rescale(bb), Err(_) => { okc = false; break; } } }
                if okc {
                    let sm = cur.to_scoring();
                    let mut e = base.clone(); e["ev"] = json!("rescale_chain"); e["chain"] = json!(chain); e["bn2"] = json!(chain[chain.len() - 1]); e["bd2"] = json!(bd);
                    e["q"] = json!(qmat::<A>(cur.matrix(), Q12));
                    e["bgq"] = json!(cur.background().frequencies().iter().map(|&x| quant(x as f64, Q12)).collect::<Vec<_>>());
                    e["s"] = json!(qmat::<A>(sm.matrix(), Q10));
                    out.push(e);
                }
            }
            // rescale to a second background == weights under that background
            let (bn2, bd2) = gen_bg_second::<A>(&bn, bd);
            if let Ok(bg2) = bg_of::<A>(&bn2, bd2) {
                let rs = wm.rescale(bg2);
                let mut e = base.clone(); e["ev"] = json!("rescale"); e["bn2"] = json!(bn2); e["bd2"] = json!(bd2);
                e["q"] = json!(qmat::<A>(rs.matrix(), Q12)); out.push(e);
            }
            out
        });
        match r {
            Ok(evs) => for mut e in evs { if e.get("ret").is_none() { e["ret"] = json!("ok"); } rec.reset(); rec.class(e["ev"].as_str().unwrap()); rec.emit(e); },
            Err(msg) => { let mut e = base.clone(); e["ev"] = json!("to_freq"); e["ret"] = json!("panic"); e["msg"] = json!(msg); e["q"] = json!([]); rec.reset(); rec.class("panic"); rec.emit(e); }
        }
        rec.nontrivial(&(A::NAME, counts.clone(), pn.clone(), pd, bn.clone(), bd));
    }
}

/// A valid background with one very small (but non-zero) frequency: counts (1, 2^23-1, 2^22, 2^22, 0) -> first frequency
/// 2^-24.  Logged as bn/bd = (1,2,1,1,0)/4 with a per-symbol binary shift (22,0,0,0,0): background = bn / (bd * 2^shift).
fn tiny_background(rec: &mut Recorder, rng: &mut impl Rng, n: usize) {
    type A = Dna;
    for it in 0..n {
        let m = rng.gen_range(1..=8);
        let counts = gen_counts::<A>(rng, m);
        let (pn, pd, scalar) = gen_pseudo::<A>(rng);
        let rot = it % 4;
        let mut cnt = [0usize; 5];
        let mut bn = vec![0i64; 5];
        let mut bsh = vec![0i64; 5];
        for (j, (&c, &b)) in [1usize, (1 << 23) - 1, 1 << 22, 1 << 22].iter().zip([1i64, 2, 1, 1].iter()).enumerate() {
            cnt[(j + rot) % 4] = c; bn[(j + rot) % 4] = b;
        }
        bsh[rot] = 22;
        let base = json!({"abc":A::NAME,"K":A::KK,"m":counts,"pn":pn,"pd":pd,"bn":bn,"bd":4,"bsh":bsh});
        let r = guarded(|| -> Vec<Value> {
            let mut out = Vec::new();
            let cm = CountMatrix::<A>::new(counts_dense::<A>(&counts)).unwrap();
            let fm = cm.to_freq(pseudo_of::<A>(&pn, pd, scalar));
            let ga: GenericArray<usize, <A as lightmotif::abc::Alphabet>::K> = cnt.iter().cloned().collect();
            let bg = Background::<A>::from_counts(&ga).unwrap();
            let wm = fm.to_weight(bg.clone());
            let mut e = base.clone(); e["ev"] = json!("to_weight"); e["q"] = json!(qmat::<A>(wm.matrix(), Q12)); out.push(e);
            let routes: Vec<(&str, ScoringMatrix<A>)> = vec![
                ("freq.to_scoring", fm.to_scoring(bg.clone())),
                ("freq.into_scoring", fm.clone().into_scoring(bg.clone())),
                ("weight.to_scoring", wm.to_scoring()),
            ];
            for (name, sm) in routes {
                let mut e = base.clone();
                e["ev"] = json!("to_scoring"); e["route"] = json!(name); e["basen"] = json!(2); e["based"] = json!(1);
                e["q"] = json!(qmat::<A>(sm.matrix(), Q10));
                e["min"] = json!(quant(sm.min_score() as f64, Q10)); e["max"] = json!(quant(sm.max_score() as f64, Q10));
                out.push(e);
            }
            out
        });
        match r {
            Ok(evs) => for mut e in evs { e["ret"] = json!("ok"); rec.reset(); rec.class("tiny_nonzero_background"); rec.emit(e); },
            Err(msg) => { let mut e = base.clone(); e["ev"] = json!("to_weight"); e["ret"] = json!("panic"); e["msg"] = json!(msg); e["q"] = json!([]); rec.reset(); rec.class("panic"); rec.emit(e); }
        }
        rec.nontrivial(&("tiny", counts.clone(), pn.clone(), pd, rot));
    }
}

fn gen_bg_second<A: Abc>(bn: &[i64], bd: i64) -> (Vec<i64>, i64) {
    // rotate the non-wildcard entries: a different valid background with the same denominator
    let k = A::KK - 1;
    let mut v: Vec<i64> = (0..k).map(|i| bn[(i + 1) % k]).collect();
    v.push(bn[k]);
    (v, bd)
}

fn counting<A: Abc>(rec: &mut Recorder, rng: &mut impl Rng, n: usize) {
    for it in 0..n {
        let m = rng.gen_range(0..=8);
        let ns = rng.gen_range(0..=12);
        let ragged = it % 4 == 3 && ns >= 2;
        let mut seqs: Vec<Vec<usize>> = (0..ns).map(|_| random_ranks::<A>(rng, m, 0.05)).collect();
        if ragged {
            let j = rng.gen_range(1..ns);
            if rng.gen_bool(0.5) || m == 0 { seqs[j].push(0) } else { seqs[j].pop(); }
        }
        // two routes to the same constructor: from_sequences, and collecting an iterator of sequences into a Result
        let r = guarded(|| {
            let it_seqs = seqs.iter().map(|s| EncodedSequence::<A>::new(A::syms(s)));
            let cm = if it % 2 == 0 { CountMatrix::<A>::from_sequences(it_seqs) } else { it_seqs.collect::<Result<CountMatrix<A>, _>>() };
            cm.map(|cm| (0..cm.matrix().rows()).map(|i| cm.matrix()[i].to_vec()).collect::<Vec<_>>())
        });
        rec.reset();
        rec.class(if ragged { "counts_ragged" } else { "counts_equal" });
        rec.nontrivial(&(A::NAME, seqs.clone()));
        let mut e = json!({"ev":"counts","abc":A::NAME,"K":A::KK,"seqs":seqs});
        match r {
            Ok(Ok(mx)) => { e["ret"] = json!("ok"); e["m"] = json!(mx); }
            Ok(Err(_)) => { e["ret"] = json!("err"); e["m"] = json!([]); }
            Err(msg) => { e["ret"] = json!("panic"); e["msg"] = json!(msg); e["m"] = json!([]); }
        }
        rec.emit(e);
    }
}

fn validity(rec: &mut Recorder, rng: &mut impl Rng, n: usize) {
    type A = Dna;
    for it in 0..n {
        // backgrounds: valid dyadic ones, and clearly invalid ones (entry outside [0,1], sum off by >= 1/16)
        let fd = 16i64;
        let mut f: Vec<i64> = match it % 3 { 0 => vec![4, 4, 4, 4, 0], 1 => vec![8, 2, 2, 4, 0], _ => vec![1, 5, 9, 1, 0] };
        let kind = it % 7;
        match kind {
            // a negative entry that is NOT the first one, preceded by enough mass, total still exactly one
            5 => { let j = rng.gen_range(1..5); f = vec![8, 4, 4, 4, 0]; f[j] = -4; f[0] = 16 - (f[1] + f[2] + f[3] + f[4]); }
            6 => { f = vec![8, 8, 4, 0, -4]; }                                      // negative wildcard

            1 => { let j = rng.gen_range(0..4); f[j] += rng.gen_range(1..5); }      // sum too large
            2 => { let j = rng.gen_range(0..4); f[j] -= 1; }                        // sum too small (entries stay >= 0)
            3 => { f[0] = -2; f[1] += 2 + f[0].abs(); f[1] = 16 - f[2] - f[3] - f[0]; } // negative entry, sum = 1
            4 => { f = vec![20, -4, 0, 0, 0]; }                                     // entry above 1, sum = 1
            _ => {}
        }
        let r = guarded(|| {
            let ga: GenericArray<f32, <A as Alphabet>::K> = f.iter().map(|&x| x as f32 / fd as f32).collect();
            Background::<A>::new(ga).is_ok()
        });
        rec.reset();
        rec.class("bg_new");
        rec.emit(match r {
            Ok(ok) => json!({"ev":"bg_new","abc":"dna","K":5,"fn":f,"fd":fd,"ret": if ok {"ok"} else {"err"}}),
            Err(msg) => json!({"ev":"bg_new","abc":"dna","K":5,"fn":f,"fd":fd,"ret":"panic","msg":msg}),
        });
        // Background::from_counts: zero total rejected, otherwise count / total
        let counts: Vec<usize> = if it % 4 == 0 { vec![0; 5] } else { (0..5).map(|_| rng.gen_range(0..20)).collect() };
        let r = guarded(|| {
            let ga: GenericArray<usize, <A as Alphabet>::K> = counts.iter().cloned().collect();
            Background::<A>::from_counts(&ga).map(|b| b.frequencies().iter().map(|&x| quant(x as f64, Q12)).collect::<Vec<_>>())
        });
        rec.reset();
        rec.class("bg_from_counts");
        rec.emit(match r {
            Ok(Ok(q)) => json!({"ev":"bg_from_counts","counts":counts,"ret":"ok","q":q}),
            Ok(Err(_)) => json!({"ev":"bg_from_counts","counts":counts,"ret":"err","q":[]}),
            Err(msg) => json!({"ev":"bg_from_counts","counts":counts,"ret":"panic","msg":msg,"q":[]}),
        });
        // FrequencyMatrix::new: rows summing to one (dyadic), or clearly off (>= 1/16)
        let mrows = rng.gen_range(1..5);
        let bad_row = if it % 2 == 1 { Some(rng.gen_range(0..mrows)) } else { None };
        let rows: Vec<Vec<i64>> = (0..mrows).map(|i| {
            let mut r = vec![4i64, 4, 4, 4, 0];
            let a = rng.gen_range(0..4); let b = rng.gen_range(0..4);
            if a != b { r[a] += 3; r[b] -= 3; }
            if Some(i) == bad_row { let j = rng.gen_range(0..4); if rng.gen_bool(0.5) { r[j] += 2 } else { r[j] -= 1 } }
            r
        }).collect();
        let r = guarded(|| {
            let mut d = DenseMatrix::<f32, <A as Alphabet>::K>::new(rows.len());
            for (i, row) in rows.iter().enumerate() { for (j, &x) in row.iter().enumerate() { d[i][j] = x as f32 / 16.0; } }
            FrequencyMatrix::<A>::new(d).is_ok()
        });
        rec.reset();
        rec.class("freq_new");
        rec.emit(match r {
            Ok(ok) => json!({"ev":"freq_new","rows":rows,"rd":16,"K":5,"ret": if ok {"ok"} else {"err"}}),
            Err(msg) => json!({"ev":"freq_new","rows":rows,"rd":16,"K":5,"ret":"panic","msg":msg}),
        });
    }
}

pub fn record_c09(rec: &mut Recorder, seed: u64, thorough: bool) {
    let mut r = rng(seed, 9);
    let n = if thorough { 900 } else { 240 };
    conversions::<Dna>(rec, &mut r, n);
    conversions::<Protein>(rec, &mut r, n / 3);
    counting::<Dna>(rec, &mut r, n);
    counting::<Protein>(rec, &mut r, n / 3);
    validity(rec, &mut r, n);
    tiny_background(rec, &mut r, n / 4);
}

// ------------------------------------------------------------------------------------------ C10

fn grid_dense(rows: &[Vec<i64>], s: u32) -> DenseMatrix<f32, U5> {
    let mut d = DenseMatrix::<f32, U5>::new(rows.len());
    for (i, row) in rows.iter().enumerate() { for (j, &x) in row.iter().enumerate() { d[i][j] = ungrid(x, s); } }
    d
}
fn grid_rows(m: &DenseMatrix<f32, U5>, s: u32) -> Vec<Vec<Value>> {
    (0..m.rows()).map(|i| m[i].iter().map(|&x| grid(x, s)).collect()).collect()
}

pub fn record_c10(rec: &mut Recorder, seed: u64, thorough: bool) {
    type A = Dna;
    let mut rng = rng(seed, 10);
    let n = if thorough { 600 } else { 200 };
    for it in 0..n {
        let m = if it < 31 { it } else { rng.gen_range(1..=30) };
        // ---- cell-wise reverse complement of the four matrix types, applied once and twice
        let counts = gen_counts::<A>(&mut rng, m);
        let r = guarded(|| {
            let cm = CountMatrix::<A>::new(counts_dense::<A>(&counts)).unwrap();
            let rc = cm.reverse_complement();
            let rc2 = rc.reverse_complement();
            let f = |x: &CountMatrix<A>| (0..x.matrix().rows()).map(|i| x.matrix()[i].to_vec()).collect::<Vec<_>>();
            (f(&rc), f(&rc2))
        });
        rec.reset(); rec.class("rc_count");
        rec.emit(match r {
            Ok((o1, o2)) => json!({"ev":"rc","kind":"count","m":counts,"out":o1,"out2":o2,"ret":"ok"}),
            Err(msg) => json!({"ev":"rc","kind":"count","m":counts,"out":[],"out2":[],"ret":"panic","msg":msg}),
        });
        // weight / scoring matrices with arbitrary grid contents (wildcard column populated, -inf present)
        let cells: Vec<Vec<i64>> = (0..m).map(|_| (0..5).map(|_| if rng.gen_bool(0.1) { NINF } else { rng.gen_range(-30..=30) }).collect()).collect();
        for kind in ["score", "weight", "freq"] {
            let cells: Vec<Vec<i64>> = if kind == "score" { cells.clone() } else if kind == "weight" {
                cells.iter().map(|r| r.iter().map(|&x| if x == NINF { 0 } else { x.abs() }).collect()).collect()
            } else {
                // frequency rows on the 1/16 grid summing to one
                (0..m).map(|_| { let mut r = vec![4i64, 4, 4, 4, 0]; let a = rng.gen_range(0..5); let b = rng.gen_range(0..4); if a != b && r[b] >= 2 { r[a] += 2; r[b] -= 2; } r }).collect()
            };
            let s = if kind == "freq" { 4 } else { 2 };
            let r = guarded(|| match kind {
                "score" => {
                    let x = ScoringMatrix::<A>::new(Background::uniform(), grid_dense(&cells, s));
                    let rc = x.reverse_complement(); let rc2 = rc.reverse_complement();
                    (grid_rows(rc.matrix(), s), grid_rows(rc2.matrix(), s))
                }
                "weight" => {
                    // a weight matrix with these exact entries: exp2 of a scoring matrix is not exact, so go through FrequencyMatrix::to_weight with background 1/4
                    let mut d = grid_dense(&cells, s);
                    for row in d.iter_mut() { for x in row.iter_mut() { *x /= 64.0; } }
                    // rows need not sum to one for new_unchecked paths; use to_weight of a frequency-like matrix via Background uniform (x / 0.25)
                    let fm = FrequencyMatrix::<A>::new(d);
                    match fm {
                        Ok(fm) => { let w = fm.to_weight(None); let rc = w.reverse_complement(); let rc2 = rc.reverse_complement();
                                    (grid_rows(rc.matrix(), 10), grid_rows(rc2.matrix(), 10)) }
                        Err(_) => (vec![], vec![]),
                    }
                }
                _ => {
                    let x = FrequencyMatrix::<A>::new(grid_dense(&cells, s)).unwrap();
                    let rc = x.reverse_complement(); let rc2 = rc.reverse_complement();
                    (grid_rows(rc.matrix(), s), grid_rows(rc2.matrix(), s))
                }
            });
            if kind == "weight" { continue; } // weights are covered through rc_commute below (FrequencyMatrix::new rejects arbitrary rows)
            rec.reset(); rec.class(&format!("rc_{}", kind));
            rec.emit(match r {
                Ok((o1, o2)) => json!({"ev":"rc","kind":kind,"m":cells,"out":o1,"out2":o2,"ret":"ok"}),
                Err(msg) => json!({"ev":"rc","kind":kind,"m":cells,"out":[],"out2":[],"ret":"panic","msg":msg}),
            });
        }
        // ---- commutation with count -> freq -> weight -> score under strand-symmetric pseudocounts / background
        if m >= 1 {
            let (pn, pd): (i64, i64) = [(0, 1), (1, 10), (1, 2), (1, 1)][it % 4];
            // strand-symmetric backgrounds (A=T, C=G; columns are A C T G N): uniform, decimal, AT-only and GC-only (zeros
            // in non-adjacent columns)
            let (bn, bd): (Vec<i64>, i64) = match it % 5 { 0 | 2 => (vec![1, 1, 1, 1, 0], 4), 1 => (vec![3, 2, 3, 2, 0], 10), 3 => (vec![1, 0, 1, 0, 0], 2), _ => (vec![0, 1, 0, 1, 0], 2) };
            let r = guarded(|| {
                let cm = CountMatrix::<A>::new(counts_dense::<A>(&counts)).unwrap();
                let bg = bg_of::<A>(&bn, bd).unwrap();
                let p = pn as f32 / pd as f32;
                let a_f = cm.to_freq(p).reverse_complement();
                let b_f = cm.reverse_complement().to_freq(p);
                let a_w = cm.to_freq(p).to_weight(bg.clone()).reverse_complement();
                let b_w = cm.reverse_complement().to_freq(p).to_weight(bg.clone());
                let a_s = cm.to_freq(p).to_scoring(bg.clone()).reverse_complement();
                let b_s = cm.reverse_complement().to_freq(p).to_scoring(bg.clone());
                // the whole object, not only its cells: background carried by the weight / scoring matrices, and the
                // original back after two reverse complements
                let w0 = cm.to_freq(p).to_weight(bg.clone());
                let s0 = cm.to_freq(p).to_scoring(bg.clone());
                let w2 = a_w.reverse_complement();
                let s2 = a_s.reverse_complement();
                let bq = |b: &Background<A>| b.frequencies().iter().map(|&x| quant(x as f64, Q12)).collect::<Vec<_>>();
                json!({"af": qmat::<A>(a_f.matrix(), Q12), "bf": qmat::<A>(b_f.matrix(), Q12),
                       "aw": qmat::<A>(a_w.matrix(), Q12), "bw": qmat::<A>(b_w.matrix(), Q12),
                       "as": qmat::<A>(a_s.matrix(), Q10), "bs": qmat::<A>(b_s.matrix(), Q10),
                       "w0": qmat::<A>(w0.matrix(), Q12), "w2": qmat::<A>(w2.matrix(), Q12), "w2eq": w2 == w0,
                       "s0": qmat::<A>(s0.matrix(), Q10), "s2": qmat::<A>(s2.matrix(), Q10), "s2eq": s2 == s0,
                       "bgs": [bq(a_w.background()), bq(w2.background()), bq(a_s.background()), bq(s2.background())]})
            });
            rec.reset(); rec.class("rc_commute");
            let mut pnv = vec![pn; 5]; pnv[4] = 0;
            let mut e = json!({"ev":"rc_commute","m":counts,"pn":pnv,"pd":pd,"bn":bn,"bd":bd,"K":5});
            match r { Ok(v) => { e["ret"] = json!("ok"); for (k, x) in v.as_object().unwrap() { e[k] = x.clone(); } }
                      Err(msg) => { e["ret"] = json!("panic"); e["msg"] = json!(msg); for k in ["af","bf","aw","bw","as","bs","w0","w2","s0","s2","bgs"] { e[k] = json!([]); } e["w2eq"] = json!(false); e["s2eq"] = json!(false); } }
            rec.emit(e);
        }
        // ---- mirrored scoring on the opposite strand (grid matrix => exact)
        if m >= 1 {
            // (one pair in six is long enough for the vectorised 32 x 32 transposition of the AVX2 striping code)
            let l = if it % 6 == 5 { [1024usize, 1056, 2048, 1100][(it / 6) % 4] } else { m + rng.gen_range(0..40) };
            let ranks = random_ranks::<A>(&mut rng, l, 0.05);
            let pssm: Vec<Vec<i64>> = cells.iter().map(|r| { let mut r = r.clone(); r[4] = NINF; r }).collect();
            let r = guarded(|| {
                let sm = ScoringMatrix::<A>::new(Background::uniform(), grid_dense(&pssm, 2));
                let rcm = sm.reverse_complement();
                let rc_ranks: Vec<usize> = ranks.iter().rev().map(|&x| <A as ComplementableAlphabet>::complement(A::sym(x)).as_index()).collect();
                let pli = Pipeline::<A, _>::generic();
                // long pairs are striped by the dispatched pipeline (AVX2 on this host), the others by the generic one
                let dpl = Pipeline::<A, _>::dispatch();
                let mut s1: lightmotif::seq::StripedSequence<A, U32> = if l >= 1024 { dpl.stripe(A::syms(&ranks)) } else { pli.stripe(A::syms(&ranks)) };
                let mut s2: lightmotif::seq::StripedSequence<A, U32> = if l >= 1024 { dpl.stripe(A::syms(&rc_ranks)) } else { pli.stripe(A::syms(&rc_ranks)) };
                // every other pair of sequences was used with a shorter motif before (look-ahead rows added in two steps)
                if it % 2 == 0 && m >= 3 { s1.configure_wrap(1 + it % (m - 2)); s2.configure_wrap(1 + (it / 2) % (m - 2)); }
                // ... or with a LONGER motif (both strands configured once for the longest motif of a collection)
                if it % 5 == 1 { s1.configure_wrap(m + 2 + it % 4); s2.configure_wrap(m + 1 + it % 3); }
                // the single-position entry point, on sequences holding FEWER look-ahead rows than the motif needs
                // (score_position indexes by position and does not depend on them)
                let n = if ranks.len() >= m { ranks.len() - m + 1 } else { 0 };
                let p1: Vec<Value> = (0..n).map(|i| grid(sm.score_position(&s1, i), 2)).collect();
                let p2: Vec<Value> = (0..n).map(|i| grid(rcm.score_position(&s2, i), 2)).collect();
                s1.configure(&sm);
                s2.configure(&rcm);
                let sc1 = sm.score(&s1);
                // every third pair: the opposite strand is striped INTO the buffer that held (and was configured for)
                // the first strand, the way a caller walks over both strands with one buffer
                let sc2 = if it % 3 == 1 {
                    pli.stripe_into(A::syms(&rc_ranks), &mut s1);
                    s1.configure(&rcm);
                    rcm.score(&s1)
                } else {
                    rcm.score(&s2)
                };
                let o1: Vec<Value> = sc1.unstripe().iter().map(|&x| grid(x, 2)).collect();
                let o2: Vec<Value> = sc2.unstripe().iter().map(|&x| grid(x, 2)).collect();
                // the same scores read from the back (position L-M-i of one strand against position i of the other)
                let mut b1: Vec<Value> = sc1.iter().rev().map(|&x| grid(x, 2)).collect(); b1.reverse();
                let mut b2: Vec<Value> = sc2.iter().rev().map(|&x| grid(x, 2)).collect(); b2.reverse();
                // ... and position by position through Index (what the Python __getitem__ does)
                let i1: Vec<Value> = (0..o1.len()).map(|i| grid(sc1[i], 2)).collect();
                let i2: Vec<Value> = (0..o2.len()).map(|i| grid(sc2[i], 2)).collect();
                let back_ok = b1 == o1 && b2 == o2 && i1 == o1 && i2 == o2;
                (rc_ranks, o1, o2, p1, p2, back_ok)
            });
            rec.reset(); rec.class("rc_score");
            rec.nontrivial(&(pssm.clone(), ranks.clone()));
            rec.emit(match r {
                Ok((s2, o1, o2, p1, p2, back_ok)) => json!({"ev":"rc_score","m":pssm,"seq":ranks,"seq2":s2,"o1":o1,"o2":o2,"p1":p1,"p2":p2,"back_ok":back_ok,"ret":"ok"}),
                Err(msg) => json!({"ev":"rc_score","m":pssm,"seq":ranks,"seq2":[],"o1":[],"o2":[],"p1":[],"p2":[],"back_ok":false,"ret":"panic","msg":msg}),
            });
        }
    }
    let _ = WeightMatrix::<A>::from(ScoringMatrix::<A>::new(Background::uniform(), DenseMatrix::new(0)));
}
