//! Alphabet / backend plumbing shared by the pipeline drivers (C01-C08).
use lightmotif::abc::{Alphabet, Dna, Protein, Symbol};
use lightmotif::pli::dispatch::Dispatch;
use rand::Rng;

pub trait Abc: Alphabet {
    const NAME: &'static str;
    const KK: usize;
    fn sym(rank: usize) -> Self::Symbol {
        Self::symbols()[rank]
    }
    fn ranks(s: &[Self::Symbol]) -> Vec<usize> {
        s.iter().map(|x| x.as_index()).collect()
    }
    fn syms(r: &[usize]) -> Vec<Self::Symbol> {
        r.iter().map(|&x| Self::sym(x)).collect()
    }
}
impl Abc for Dna {
    const NAME: &'static str = "dna";
    const KK: usize = 5;
}
impl Abc for Protein {
    const NAME: &'static str = "protein";
    const KK: usize = 21;
}

/// Random symbol ranks; wildcard (rank K-1) with probability `pw`.
pub fn random_ranks<A: Abc>(rng: &mut impl Rng, len: usize, pw: f64) -> Vec<usize> {
    (0..len)
        .map(|_| if rng.gen_bool(pw) { A::KK - 1 } else { rng.gen_range(0..A::KK - 1) })
        .collect()
}

#[derive(Clone, Copy, Debug, PartialEq, Eq)]
pub enum Arm {
    Avx2,
    Sse2,
    Generic,
}
impl Arm {
    pub fn name(&self) -> &'static str {
        match self {
            Arm::Avx2 => "avx2",
            Arm::Sse2 => "sse2",
            Arm::Generic => "generic",
        }
    }
    pub fn all() -> [Arm; 3] {
        [Arm::Avx2, Arm::Sse2, Arm::Generic]
    }
}

/// Force the arm taken by `Pipeline::dispatch()` on this thread (hook H1); `None` = runtime detection.
pub fn force(arm: Option<Arm>) {
    lightmotif::verif::force_backend(arm.map(|a| match a {
        Arm::Avx2 => Dispatch::Avx2,
        Arm::Sse2 => Dispatch::Sse2,
        Arm::Generic => Dispatch::Generic,
    }));
}

/// JSON null is not supported by the TLA+ Json module: absent arm is the string "none".
pub fn arm_name(arm: Option<Arm>) -> &'static str {
    arm.map(|a| a.name()).unwrap_or("none")
}
