//! C05 - encoding: recorder (impl -> spec).
use lightmotif::abc::{Dna, Protein, Symbol};
use lightmotif::pli::{Encode, Pipeline};
use lightmotif::seq::EncodedSequence;
use rand::Rng;
use serde_json::{json, Value};
use std::str::FromStr;

use crate::pipe::*;
use crate::util::*;

fn outcome<A: Abc>(r: Result<Result<Vec<A::Symbol>, lightmotif::err::InvalidSymbol>, String>) -> Value {
    match r {
        Err(m) => json!({"ret":"panic","msg":m}),
        Ok(Err(e)) => json!({"ret":"err","byte": e.0 as u32}),
        Ok(Ok(syms)) => {
            let text: Vec<u8> = EncodedSequence::<A>::new(syms.clone()).to_string().into_bytes();
            json!({"ret":"ok","syms": A::ranks(&syms), "text": text})
        }
    }
}

fn one<A: Abc, P: Encode<A>>(rec: &mut Recorder, pli: &P, be: &str, arm: Option<Arm>, bytes: &[u8], api: usize) {
    let api_name = ["encode", "encode_raw", "encode_into", "EncodedSequence::encode", "from_str"][api];
    let r = guarded(|| -> Result<Vec<A::Symbol>, lightmotif::err::InvalidSymbol> {
        match api {
            0 => pli.encode(bytes).map(|e| e.iter().cloned().collect()),
            1 => pli.encode_raw(bytes),
            2 => {
                // the destination is a window at a varying offset (0..36 bytes, hence any alignment) inside a larger
                // buffer, and the text is read from a window of another buffer: the caller chooses both slices
                let n = bytes.len();
                let off = (n * 5 + be.len() * 3 + bytes.first().copied().unwrap_or(0) as usize) % 37;
                let soff = (n * 3 + 1) % 19;
                let mut src = vec![b'#'; n + 64];
                src[soff..soff + n].copy_from_slice(bytes);
                let mut big = vec![A::default_symbol(); n + 80];
                let r = pli.encode_into(&src[soff..soff + n], &mut big[off..off + n]);
                // nothing outside the window may be written
                let clean = big[..off].iter().chain(big[off + n..].iter()).all(|s| *s == A::default_symbol());
                assert!(clean, "encode_into wrote outside the destination window");
                r.map(|_| big[off..off + n].to_vec())
            }
            3 => EncodedSequence::<A>::encode(bytes).map(|e| e.iter().cloned().collect()),
            _ => EncodedSequence::<A>::from_str(std::str::from_utf8(bytes).unwrap()).map(|e| e.iter().cloned().collect()),
        }
    });
    let mut o = outcome::<A>(r);
    let m = o.as_object_mut().unwrap();
    m.insert("ev".into(), json!("encode"));
    m.insert("be".into(), json!(be));
    m.insert("arm".into(), json!(arm_name(arm)));
    m.insert("abc".into(), json!(A::NAME));
    m.insert("api".into(), json!(api_name));
    m.insert("bytes".into(), json!(bytes));
    rec.reset();
    rec.emit(o);
}

fn all_backends<A: Abc>(rec: &mut Recorder, bytes: &[u8], rng: &mut impl Rng, class: &str) {
    rec.class(class);
    rec.nontrivial(&(A::NAME, bytes.to_vec()));
    let ascii = bytes.is_ascii();
    force(None);
    one::<A, _>(rec, &Pipeline::<A, _>::generic(), "generic", None, bytes, rng.gen_range(0..3));
    one::<A, _>(rec, &Pipeline::<A, _>::sse2().unwrap(), "sse2", None, bytes, rng.gen_range(0..3));
    one::<A, _>(rec, &Pipeline::<A, _>::avx2().unwrap(), "avx2", None, bytes, rng.gen_range(0..3));
    for arm in Arm::all() {
        force(Some(arm));
        let api = if ascii { rng.gen_range(0..5) } else { rng.gen_range(0..4) };
        one::<A, _>(rec, &Pipeline::<A, _>::dispatch(), "dispatch", Some(arm), bytes, api);
    }
    force(None);
}

fn valid<A: Abc>(rng: &mut impl Rng, len: usize) -> Vec<u8> {
    random_ranks::<A>(rng, len, 0.05).iter().map(|&r| A::sym(r).as_ascii()).collect()
}

fn invalid_byte<A: Abc>(rng: &mut impl Rng) -> u8 {
    loop {
        let b: u8 = match rng.gen_range(0..6) {
            0 => rng.gen_range(b'a'..=b'z'),
            1 => rng.gen_range(0x80..=0xFF),
            2 => [b'.', b'-', b' ', b'\n', 0, b'*', b'U', b'B', b'J', b'O', b'Z'][rng.gen_range(0..11)],
            _ => rng.gen(),
        };
        if A::Symbol::from_ascii(b).is_err() {
            return b;
        }
    }
}

fn campaign<A: Abc>(rec: &mut Recorder, rng: &mut impl Rng, thorough: bool) {
    let mut lens: Vec<usize> = (0..=100).collect();
    lens.extend([127, 128, 129, 255, 256, 257]);
    for &l in &lens {
        // valid input
        let v = valid::<A>(rng, l);
        all_backends::<A>(rec, &v, rng, "valid");
        if l == 0 {
            continue;
        }
        // one invalid byte at chosen positions relative to the 16/32-byte blocks and the tail
        let mut pos: Vec<usize> = if thorough || l <= 40 {
            (0..l).collect()
        } else {
            let mut p = vec![0, l - 1, 15, 16, 17, 31, 32, 33, 47, 48, 63, 64, 65, 95, 96, rng.gen_range(0..l)];
            p.retain(|&x| x < l);
            p
        };
        pos.dedup();
        if !thorough && l > 16 && l <= 40 {
            // keep the quick tier small: every second position plus the block edges
            pos.retain(|&p| p % 2 == 0 || p == l - 1 || (15..=17).contains(&p) || (31..=33).contains(&p));
        }
        for p in pos {
            let mut b = v.clone();
            b[p] = invalid_byte::<A>(rng);
            all_backends::<A>(rec, &b, rng, "one_invalid");
        }
        // two invalid bytes: the first one must be reported
        if l >= 2 {
            for _ in 0..(if thorough { 6 } else { 2 }) {
                let mut b = v.clone();
                let p1 = rng.gen_range(0..l - 1);
                let p2 = rng.gen_range(p1 + 1..l);
                b[p1] = invalid_byte::<A>(rng);
                loop {
                    b[p2] = invalid_byte::<A>(rng);
                    if b[p2] != b[p1] { break; }
                }
                all_backends::<A>(rec, &b, rng, "two_invalid");
            }
        }
    }
    // long texts (valid, and with one invalid byte far inside): encoding, and the text shown for the result, beyond any
    // internal block / buffer size
    let longs: &[usize] = if thorough { &[1023, 1024, 1025, 2049, 2050, 3100, 4097, 10_000] } else { &[1024, 1025, 2050, 3100] };
    for &l in longs {
        let v = valid::<A>(rng, l);
        all_backends::<A>(rec, &v, rng, "valid_long");
        let mut b = v.clone();
        b[l - 1 - l % 7] = invalid_byte::<A>(rng);
        all_backends::<A>(rec, &b, rng, "one_invalid");
    }
    // every byte value at lane 0 / last lane of a block / first tail byte / middle
    let spots: &[(usize, usize)] = if thorough {
        &[(33, 0), (33, 31), (33, 32), (70, 40), (17, 15), (17, 16), (64, 63), (31, 30), (16, 0)]
    } else {
        &[(33, 31), (33, 32), (17, 16)]
    };
    for &(l, p) in spots {
        let v = valid::<A>(rng, l);
        for byte in 0..=255u8 {
            let mut b = v.clone();
            b[p] = byte;
            all_backends::<A>(rec, &b, rng, "all_byte_values");
        }
    }
}

pub fn record(rec: &mut Recorder, seed: u64, thorough: bool) {
    let mut r = rng(seed, 5);
    campaign::<Dna>(rec, &mut r, thorough);
    campaign::<Protein>(rec, &mut r, thorough);
}
