//! Shared helpers: ndjson recorder, panic capture, seeded RNG.
use std::fs::File;
use std::io::{BufWriter, Write};
use std::panic::{catch_unwind, AssertUnwindSafe};

use rand::rngs::StdRng;
use rand::SeedableRng;
use serde_json::{json, Value};

/// Sentinel used for negative infinity in recorded grid scores (matches LmBase!NINF).
pub const NINF: i64 = -1073741824;

pub struct Recorder {
    out: BufWriter<File>,
    pub events: usize,
    pub histories: usize,
    /// classification counters (boundary classes exercised), reported in the summary
    pub classes: std::collections::BTreeMap<String, usize>,
    /// distinct non-trivial case signatures
    pub distinct: std::collections::BTreeSet<u64>,
    pub samples: Vec<Value>,
}

impl Recorder {
    pub fn create(path: &str) -> Self {
        let f = File::create(path).expect("cannot create trace file");
        Self {
            out: BufWriter::new(f),
            events: 0,
            histories: 0,
            classes: Default::default(),
            distinct: Default::default(),
            samples: Vec::new(),
        }
    }
    pub fn reset(&mut self) {
        // flush complete histories so that a crash of the process leaves a usable partial trace
        self.out.flush().unwrap();
        writeln!(self.out, "{{\"ev\":\"reset\"}}").unwrap();
        self.histories += 1;
        HISTORIES.store(self.histories as u64, std::sync::atomic::Ordering::Relaxed);
        beat();
    }
    pub fn emit(&mut self, v: Value) {
        if self.samples.len() < 3 && (self.events % 97 == 0) {
            let s = v.to_string();
            if s.len() < 1500 {
                self.samples.push(v.clone());
            }
        }
        serde_json::to_writer(&mut self.out, &v).unwrap();
        self.out.write_all(b"\n").unwrap();
        self.events += 1;
        beat();
    }
    pub fn class(&mut self, name: &str) {
        *self.classes.entry(name.to_string()).or_insert(0) += 1;
    }
    /// register a non-trivial case by a signature (any hashable description)
    pub fn nontrivial<H: std::hash::Hash>(&mut self, sig: &H) {
        use std::hash::Hasher;
        let mut h = std::collections::hash_map::DefaultHasher::new();
        sig.hash(&mut h);
        self.distinct.insert(h.finish());
    }
    pub fn finish(mut self) -> Value {
        self.out.flush().unwrap();
        json!({
            "events": self.events,
            "histories": self.histories,
            "classes": self.classes,
            "distinct_nontrivial": self.distinct.len(),
            "samples": self.samples,
        })
    }
}

pub fn rng(seed: u64, stream: u64) -> StdRng {
    StdRng::seed_from_u64(seed.wrapping_mul(0x9E3779B97F4A7C15).wrapping_add(stream))
}

// ---- watchdog: a library call that never returns is an observation ("hang"), not a tool problem --------------------
static BEAT: std::sync::atomic::AtomicU64 = std::sync::atomic::AtomicU64::new(0);
static HISTORIES: std::sync::atomic::AtomicU64 = std::sync::atomic::AtomicU64::new(0);
static PENDING: std::sync::Mutex<String> = std::sync::Mutex::new(String::new());

#[inline]
pub fn beat() {
    BEAT.fetch_add(1, std::sync::atomic::Ordering::Relaxed);
}
/// Describe the call history that is about to be run (written to `<trace>.hang` if it never comes back).
pub fn set_pending(desc: String) {
    *PENDING.lock().unwrap() = desc;
    beat();
}
/// Exit code of the recorder when the watchdog fired.
pub const HANG_EXIT: i32 = 96;
/// Start the watchdog: when the recorder makes no progress (no event, no history, no guarded call entered or left) for
/// LMV_WATCHDOG_SECS seconds (default 150; a whole quick recording takes seconds), `<trace>.hang` is written and the
/// process exits with HANG_EXIT.
pub fn start_watchdog(trace_path: &str) {
    let path = format!("{}.hang", trace_path);
    let limit: u64 = std::env::var("LMV_WATCHDOG_SECS").ok().and_then(|x| x.parse().ok()).unwrap_or(150);
    std::thread::spawn(move || {
        let mut last = BEAT.load(std::sync::atomic::Ordering::Relaxed);
        let mut idle = 0u64;
        loop {
            std::thread::sleep(std::time::Duration::from_secs(1));
            let now = BEAT.load(std::sync::atomic::Ordering::Relaxed);
            if now != last { last = now; idle = 0; continue; }
            idle += 1;
            if idle >= limit {
                let pending = PENDING.try_lock().map(|g| g.clone()).unwrap_or_default();
                let v = json!({"hang": true, "idle_seconds": idle, "completed_histories": HISTORIES.load(std::sync::atomic::Ordering::Relaxed),
                               "pending": pending});
                let _ = std::fs::write(&path, v.to_string());
                std::process::exit(HANG_EXIT);
            }
        }
    });
}

/// Run `f`, turning a panic into `Err(message)`.
pub fn guarded<R>(f: impl FnOnce() -> R) -> Result<R, String> {
    beat();
    let r = guarded_inner(f);
    beat();
    r
}
fn guarded_inner<R>(f: impl FnOnce() -> R) -> Result<R, String> {
    match catch_unwind(AssertUnwindSafe(f)) {
        Ok(r) => Ok(r),
        Err(e) => {
            let msg = if let Some(s) = e.downcast_ref::<&str>() {
                s.to_string()
            } else if let Some(s) = e.downcast_ref::<String>() {
                s.clone()
            } else {
                "panic".to_string()
            };
            Err(msg)
        }
    }
}

/// Last panic seen by the hook: (source file of the panic site, message).
pub static LAST_PANIC: std::sync::Mutex<(String, String)> = std::sync::Mutex::new((String::new(), String::new()));
pub fn silence_panics() {
    std::panic::set_hook(Box::new(|info| {
        let loc = info.location().map(|l| format!("{}:{}", l.file(), l.line())).unwrap_or_default();
        let msg = if let Some(s) = info.payload().downcast_ref::<&str>() { s.to_string() }
                  else if let Some(s) = info.payload().downcast_ref::<String>() { s.clone() } else { "panic".to_string() };
        if let Ok(mut g) = LAST_PANIC.try_lock() { *g = (loc, msg); }
    }));
}
/// Exit code used when a panic raised OUTSIDE the harness's own source files escaped every guard (e.g. while library
/// state was being read back): an observation about the code under test.
pub const LIB_PANIC_EXIT: i32 = 97;

pub const NAN_S: i64 = 1073741823;   // sentinels for values that are not on the grid (TLC cannot mix strings and integers)
pub const PINF_S: i64 = 1073741822;
pub const OFFGRID_S: i64 = 1073741821;

/// Convert a grid f32 (multiple of 2^-s, or -inf) to its integer in units of 2^-s.
pub fn grid(x: f32, s: u32) -> Value {
    if x == f32::NEG_INFINITY {
        json!(NINF)
    } else if x.is_nan() {
        json!(NAN_S)
    } else if x == f32::INFINITY {
        json!(PINF_S)
    } else {
        let y = (x as f64) * (1u64 << s) as f64;
        if y.fract() == 0.0 && y.abs() < 1e9 {
            json!(y as i64)
        } else {
            json!(OFFGRID_S)
        }
    }
}

/// Quantise any f32/f64: round(x * q); sentinels for -inf / +inf / NaN / too large.
pub fn quant(x: f64, q: f64) -> i64 {
    if x == f64::NEG_INFINITY {
        NINF
    } else if x.is_nan() {
        NAN_S
    } else if x == f64::INFINITY {
        PINF_S
    } else {
        let y = (x * q).round();
        if y.abs() < 1.0e9 { y as i64 } else { OFFGRID_S }
    }
}

pub fn ungrid(k: i64, s: u32) -> f32 {
    if k == NINF {
        f32::NEG_INFINITY
    } else {
        (k as f64 / (1u64 << s) as f64) as f32
    }
}
