//! Behaviour beyond the listed properties: recorder for spec/trace/Trace_Extras.tla (`./check extras`).
use lightmotif::abc::{Alphabet, Background, ComplementableAlphabet, Dna, Protein, Pseudocounts, Symbol};
use lightmotif::scan::Scanner;
use lightmotif::dense::DenseMatrix;
use lightmotif::num::*;
use lightmotif::pli::{Pipeline, Score, Stripe};
use lightmotif::pwm::{Correlation, CountMatrix};
use lightmotif::scan::Hit;
use lightmotif::seq::{EncodedSequence, StripedSequence};
use rand::{Rng, SeedableRng};
use serde_json::{json, Value};

use crate::c01::{build_pssm, random_pssm, GS};
use crate::pipe::*;
use crate::util::*;

fn emit(rec: &mut Recorder, class: &str, r: Result<Value, String>, base: Value) {
    rec.reset();
    rec.class(class);
    let mut e = base;
    match r {
        Ok(v) => { for (k, x) in v.as_object().unwrap() { e[k] = x.clone(); } if e.get("ret").is_none() { e["ret"] = json!("ok"); } }
        Err(m) => { e["ret"] = json!("panic"); e["msg"] = json!(m); }
    }
    rec.nontrivial(&e.to_string());
    rec.emit(e);
}

fn counts_of<A: Abc>(rows: &[Vec<u32>]) -> CountMatrix<A> {
    let mut d = DenseMatrix::<u32, A::K>::new(rows.len());
    for (i, r) in rows.iter().enumerate() { d[i].copy_from_slice(r); }
    CountMatrix::new(d).unwrap()
}

fn campaign<A: Abc>(rec: &mut Recorder, rng: &mut impl Rng, n: usize)
where
    Pipeline<A, lightmotif::pli::dispatch::Dispatch>: Stripe<A, U32>,
{
    for it in 0..n {
        // ---- Background::from_sequences
        let ns = rng.gen_range(0..5);
        let seqs: Vec<Vec<usize>> = (0..ns).map(|_| { let l = rng.gen_range(0..30); random_ranks::<A>(rng, l, if it % 3 == 0 { 1.0 } else { 0.1 }) }).collect();
        let unknown = it % 2 == 0;
        let r = guarded(|| {
            let enc: Vec<EncodedSequence<A>> = seqs.iter().map(|s| EncodedSequence::new(A::syms(s))).collect();
            match Background::<A>::from_sequences(enc.iter().map(|e| { let s: &[A::Symbol] = e.as_ref(); s }), unknown) {
                Ok(b) => json!({"ret":"ok","q": b.frequencies().iter().map(|&x| quant(x as f64, 4096.0)).collect::<Vec<_>>()}),
                Err(_) => json!({"ret":"err","q":[]}),
            }
        });
        emit(rec, "bg_from_seqs", r, json!({"ev":"bg_from_seqs","K":A::KK,"seqs":seqs,"unknown":unknown}));
        // ---- consensus / entropy / correlation of a count matrix without empty rows
        let m = rng.gen_range(1..8);
        let rows: Vec<Vec<u32>> = (0..m).map(|_| { let mut r = vec![0u32; A::KK]; for _ in 0..rng.gen_range(1..25) { r[rng.gen_range(0..(A::KK - 1).min(4 + it % 3))] += 1; } r }).collect();
        let r = guarded(|| {
            let cm = counts_of::<A>(&rows);
            let cons = cm.consensus();
            let sym: Vec<usize> = cons.bytes().map(|b| A::Symbol::from_ascii(b.to_ascii_uppercase()).unwrap().as_index()).collect();
            let lower: Vec<bool> = cons.bytes().map(|b| b.is_ascii_lowercase()).collect();
            json!({"sym": sym, "lower": lower})
        });
        emit(rec, "consensus", r, json!({"ev":"consensus","K":A::KK,"m":rows}));
        let r = guarded(|| json!({"q": counts_of::<A>(&rows).entropy().iter().map(|&x| quant(x as f64, 1024.0)).collect::<Vec<_>>()}));
        emit(rec, "entropy", r, json!({"ev":"entropy","K":A::KK,"m":rows}));
        let r = guarded(|| {
            let cm = counts_of::<A>(&rows);
            json!({"auto0": quant(cm.auto_correlation(0) as f64, 4096.0), "cross_self": quant(cm.cross_correlation(&cm) as f64, 4096.0),
                   "autos": (1..m).map(|d| quant(cm.auto_correlation(d) as f64, 4096.0)).collect::<Vec<_>>()})
        });
        emit(rec, "correlation", r, json!({"ev":"correlation","K":A::KK,"m":rows}));
        // ---- sampling
        let len = rng.gen_range(0..100);
        let mut bn = vec![0i64; A::KK];
        for _ in 0..8 { bn[rng.gen_range(0..A::KK - 1)] += 1; }
        let striped = it % 2 == 1;
        let r = guarded(|| {
            let f: generic_array::GenericArray<f32, A::K> = bn.iter().map(|&x| x as f32 / 8.0).collect();
            let bg = Background::<A>::new(f).unwrap();
            let srng = rand::rngs::StdRng::seed_from_u64(rng.gen());
            if striped {
                let s = StripedSequence::<A, U32>::sample(srng, bg, len);
                let seq: Vec<usize> = (0..s.len()).map(|i| s[i].as_index()).collect();
                let rows: Vec<Vec<usize>> = (0..s.matrix().rows()).map(|i| s.matrix()[i].iter().map(|x| x.as_index()).collect()).collect();
                json!({"seq": seq, "rows": rows})
            } else {
                let s = EncodedSequence::<A>::sample(srng, bg, len);
                json!({"seq": s.iter().map(|x| x.as_index()).collect::<Vec<_>>(), "rows": []})
            }
        });
        emit(rec, "sample", r, json!({"ev":"sample","K":A::KK,"C":32,"len":len,"bn":bn,"kind": if striped {"striped"} else {"encoded"}}));
    }
}

/// Alphabet facts: letters, rank <-> symbol <-> character round trips, rejected characters, default symbol,
/// uniform background, scalar pseudocounts (and, for DNA, the complement table).
fn alphabet<A: Abc>(rec: &mut Recorder, comp: Option<Vec<usize>>) {
    let r = guarded(|| {
        let letters: Vec<u8> = A::as_str().bytes().collect();
        let syms = <A as Alphabet>::symbols();
        let idx: Vec<usize> = syms.iter().map(|s| s.as_index()).collect();
        let ascii: Vec<u8> = syms.iter().map(|s| s.as_ascii()).collect();
        let back: Vec<i64> = letters.iter().map(|&b| <A as Alphabet>::Symbol::from_ascii(b).map(|s| s.as_index() as i64).unwrap_or(-1)).collect();
        // every byte that is not an upper-case letter of the alphabet is rejected (the lower-case letters too)
        let accepted: Vec<u8> = (0u8..=255).filter(|&b| <A as Alphabet>::Symbol::from_ascii(b).is_ok()).collect();
        let nonascii = <A as Alphabet>::Symbol::from_char('\u{e9}').is_err() && <A as Alphabet>::Symbol::from_char('\u{4e2d}').is_err();
        let bg = Background::<A>::uniform();
        let dbg = Background::<A>::default();
        let pc = Pseudocounts::<A>::from(0.5f32);
        let pz = Pseudocounts::<A>::default();
        json!({"letters": letters, "idx": idx, "ascii": ascii, "back": back, "accepted": accepted, "nonascii_rejected": nonascii,
               "default": <A as Alphabet>::default_symbol().as_index(),
               "uniform": bg.frequencies().iter().map(|&x| quant(x as f64, 4096.0)).collect::<Vec<_>>(),
               "default_bg": dbg.frequencies().iter().map(|&x| quant(x as f64, 4096.0)).collect::<Vec<_>>(),
               "bg_index": syms.iter().map(|&s| quant(bg[s] as f64, 4096.0)).collect::<Vec<_>>(),
               "pseudo_half": pc.counts().iter().map(|&x| quant(x as f64, 4096.0)).collect::<Vec<_>>(),
               "pseudo_default": pz.counts().iter().map(|&x| quant(x as f64, 4096.0)).collect::<Vec<_>>()})
    });
    emit(rec, "alphabet", r, json!({"ev":"alphabet","abc":A::NAME,"K":A::KK,"comp": comp.unwrap_or_default()}));
}

/// WeightMatrix::information_content of count data: the standard definition is sum_i sum_k f log2(f / b).
fn info_content<A: Abc>(rec: &mut Recorder, rng: &mut impl Rng, n: usize) {
    for it in 0..n {
        let m = rng.gen_range(1..6);
        let tot: u32 = rng.gen_range(2..20);
        let rows: Vec<Vec<u32>> = (0..m).map(|_| { let mut r = vec![0u32; A::KK]; for _ in 0..tot { r[rng.gen_range(0..A::KK - 1)] += 1; } r }).collect();
        let (pn, pd): (i64, i64) = [(1, 1), (1, 2), (1, 4), (0, 1)][it % 4];
        let r = guarded(|| {
            let w = counts_of::<A>(&rows).to_freq(pn as f32 / pd as f32).to_weight(None);
            json!({"ic": quant(w.information_content() as f64, 1024.0)})
        });
        let mut pnv = vec![pn; A::KK]; pnv[A::KK - 1] = 0;
        emit(rec, "info_content", r, json!({"ev":"info_content","K":A::KK,"m":rows,"pn":pnv,"pd":pd}));
    }
}

/// Scanner defaults and builder: without `threshold()` the threshold is 0, without `block_size()` blocks of 256 rows; the
/// hits are the positions scoring >= the threshold, whatever the order of the builder calls and whether or not an own
/// score buffer is supplied.
fn scanner_defaults(rec: &mut Recorder, rng: &mut impl Rng, n: usize) {
    for it in 0..n {
        let l = rng.gen_range(0..200);
        let m = rng.gen_range(1..8);
        let ranks = random_ranks::<Dna>(rng, l, 0.03);
        let cells = random_pssm::<Dna>(rng, m, 0.0, true, 12);
        let variant = it % 4;
        let thr4: i64 = rng.gen_range(-8..24);
        let res = guarded(|| {
            let pssm = build_pssm::<Dna>(&cells);
            let mut seq: StripedSequence<Dna, U32> = Pipeline::<Dna, _>::generic().stripe(Dna::syms(&ranks));
            seq.configure(&pssm);
            let mut buf = lightmotif::scores::StripedScores::<f32, U32>::empty();
            let mut sc = Scanner::new(&pssm, &seq);
            match variant {
                0 => {}
                1 => { sc.block_size(3).threshold(thr4 as f32 / 4.0); }
                2 => { sc.threshold(thr4 as f32 / 4.0).block_size(1); }
                _ => { sc.scores(&mut buf).threshold(thr4 as f32 / 4.0); }
            }
            let mut hits: Vec<(usize, Value)> = Vec::new();
            for h in sc.by_ref().take(l + 2) { hits.push((h.position(), grid(h.score(), GS))); }
            hits.sort_by_key(|x| x.0);
            json!({"hits": hits.iter().map(|(p, s)| json!([p, s])).collect::<Vec<_>>()})
        });
        emit(rec, "scanner_defaults", res, json!({"ev":"scanner_defaults","K":5,"seq":ranks,"pssm":cells,"thr": if variant == 0 { 0 } else { thr4 },"variant":variant}));
    }
}

/// EncodedSequence / StripedSequence as containers: length, emptiness, iteration order, text, position indexing,
/// look-ahead rows after configure.
fn sequence_api<A: Abc>(rec: &mut Recorder, rng: &mut impl Rng, n: usize)
where
    Pipeline<A, lightmotif::pli::dispatch::Dispatch>: Stripe<A, U32>,
{
    for it in 0..n {
        let l = if it < 3 { it } else { rng.gen_range(0..150) };
        let ranks = random_ranks::<A>(rng, l, 0.05);
        let w = rng.gen_range(0..9usize);
        let r = guarded(|| {
            let text: String = ranks.iter().map(|&x| A::sym(x).as_char()).collect();
            let enc = EncodedSequence::<A>::encode(&text).unwrap();
            let parsed: EncodedSequence<A> = text.parse().unwrap();
            let mut st: StripedSequence<A, U32> = enc.to_striped();
            st.configure_wrap(w);
            let by_index: Vec<usize> = (0..st.len()).map(|i| st[i].as_index()).collect();
            json!({"len": enc.len(), "empty": enc.is_empty(), "iter": enc.iter().map(|s| s.as_index()).collect::<Vec<_>>(),
                   "text_back": enc.to_string() == text, "parse_same": parsed == enc,
                   "slen": st.len(), "sempty": st.is_empty(), "wrap": st.wrap(), "by_index": by_index,
                   "rows": st.matrix().rows(), "from_vec_same": EncodedSequence::<A>::new(A::syms(&ranks)) == enc})
        });
        emit(rec, "sequence_api", r, json!({"ev":"sequence_api","K":A::KK,"C":32,"seq":ranks,"w":w}));
    }
}

/// StripedScores accessors after resize(rows, max_index): is_empty is "no rows", max_index is the value given (not clamped)
fn scores_accessors(rec: &mut Recorder, rng: &mut impl Rng, n: usize) {
    let mut sc = lightmotif::scores::StripedScores::<f32, U32>::empty();
    for it in 0..n {
        let rows = if it % 5 == 0 { 0 } else { rng.gen_range(0..6) };
        let mi = match it % 4 { 0 => 0, 1 => rows * 32, 2 => rows * 32 + rng.gen_range(1..50), _ => rng.gen_range(0..=rows * 32) };
        let res = guarded(|| {
            sc.resize(rows, mi);
            json!({"is_empty": sc.is_empty(), "max_index": sc.max_index(), "default_empty": lightmotif::scores::StripedScores::<u8, U32>::default().is_empty()})
        });
        emit(rec, "scores_accessors", res, json!({"ev":"scores_accessors","r":rows,"mi":mi}));
    }
}

pub fn record(rec: &mut Recorder, seed: u64, thorough: bool) {
    let mut r = rng(seed, 99);
    scores_accessors(rec, &mut rng(seed, 98), if thorough { 120 } else { 40 });
    alphabet::<Dna>(rec, Some(Dna::symbols().iter().map(|&s| <Dna as ComplementableAlphabet>::complement(s).as_index()).collect()));
    alphabet::<Protein>(rec, None);
    {
        let k = if thorough { 200 } else { 50 };
        info_content::<Dna>(rec, &mut r, k);
        info_content::<Protein>(rec, &mut r, k / 2);
        scanner_defaults(rec, &mut r, k);
        sequence_api::<Dna>(rec, &mut r, k);
        sequence_api::<Protein>(rec, &mut r, k / 2);
    }
    let n = if thorough { 300 } else { 60 };
    campaign::<Dna>(rec, &mut r, n);
    campaign::<Protein>(rec, &mut r, n / 2);
    for it in 0..n {
        // ---- StripedScores iterator: forward, reversed, exact size
        let l = r.gen_range(0..120);
        let m = r.gen_range(1..6);
        let ranks = random_ranks::<Dna>(&mut r, l, 0.05);
        let cells = random_pssm::<Dna>(&mut r, m, 0.0, true, 20);
        let res = guarded(|| {
            let pssm = build_pssm::<Dna>(&cells);
            let mut seq: StripedSequence<Dna, U32> = Pipeline::<Dna, _>::generic().stripe(Dna::syms(&ranks));
            seq.configure(&pssm);
            let sc = Pipeline::<Dna, _>::dispatch().score(&pssm, &seq);
            let fwd: Vec<Value> = sc.iter().map(|&x| grid(x, GS)).collect();
            let rev: Vec<Value> = sc.iter().rev().map(|&x| grid(x, GS)).collect();
            let mut it2 = sc.iter(); let _ = it2.next();
            json!({"fwd": fwd, "rev": rev, "len": sc.iter().len(), "len_after_one": it2.len()})
        });
        emit(rec, "scores_iter", res, json!({"ev":"scores_iter"}));
        // ---- Hit ordering
        let hits: Vec<(i64, usize)> = (0..r.gen_range(0..12)).map(|_| (r.gen_range(-5..5), r.gen_range(0..6))).collect();
        let res = guarded(|| {
            let mut hs: Vec<Hit> = hits.iter().map(|&(s, p)| Hit::new(p, s as f32 / 4.0)).collect();
            hs.sort();
            json!({"sorted": hs.iter().map(|h| json!([grid(h.score(), GS), h.position()])).collect::<Vec<_>>()})
        });
        emit(rec, "hit_order", res, json!({"ev":"hit_order","hits": hits.iter().map(|&(s, p)| json!([s, p])).collect::<Vec<_>>()}));
        // ---- scale / unscale bracket
        let cells = random_pssm::<Dna>(&mut r, m, 0.0, true, 20);
        let xs: Vec<i64> = (0..10).map(|_| r.gen_range(-100..100)).collect();
        let res = guarded(|| {
            let dm = build_pssm::<Dna>(&cells).to_discrete();
            let b: Vec<u8> = xs.iter().map(|&x| dm.scale(x as f32 / 4.0)).collect();
            // quantised at 1/64 to absorb f32 rounding; compared with one unit of slack in the specification (x is scaled likewise)
            json!({"b": b, "lo": b.iter().map(|&k| quant(dm.unscale(k) as f64, 64.0)).collect::<Vec<_>>(),
                   "hi": b.iter().map(|&k| quant(dm.unscale(k.saturating_add(1)) as f64, 64.0)).collect::<Vec<_>>(),
                   "x": xs.iter().map(|&x| x * 16).collect::<Vec<_>>(),
                   "inrange": true})
        });
        let _ = it;
        emit(rec, "scale_bracket", res, json!({"ev":"scale_bracket","pssm":cells}));
    }
}
