//! Behaviour beyond the listed properties: recorder for spec/trace/Trace_Extras.tla (`./check extras`).
use lightmotif::abc::{Background, Dna, Protein, Symbol};
use lightmotif::dense::DenseMatrix;
use lightmotif::num::*;
use lightmotif::pli::{Pipeline, Score, Stripe};
use lightmotif::pwm::{Correlation, CountMatrix};
use lightmotif::scan::Hit;
use lightmotif::seq::{EncodedSequence, StripedSequence};
use rand::{Rng, SeedableRng};
use serde_json::{json, Value};

use crate::c01::{build_pssm, random_pssm, GS};
use crate::pipe::*;
use crate::util::*;

fn emit(rec: &mut Recorder, class: &str, r: Result<Value, String>, base: Value) {
    rec.reset();
    rec.class(class);
    let mut e = base;
    match r {
        Ok(v) => { for (k, x) in v.as_object().unwrap() { e[k] = x.clone(); } if e.get("ret").is_none() { e["ret"] = json!("ok"); } }
        Err(m) => { e["ret"] = json!("panic"); e["msg"] = json!(m); }
    }
    rec.nontrivial(&e.to_string());
    rec.emit(e);
}

fn counts_of<A: Abc>(rows: &[Vec<u32>]) -> CountMatrix<A> {
    let mut d = DenseMatrix::<u32, A::K>::new(rows.len());
    for (i, r) in rows.iter().enumerate() { d[i].copy_from_slice(r); }
    CountMatrix::new(d).unwrap()
}

fn campaign<A: Abc>(rec: &mut Recorder, rng: &mut impl Rng, n: usize)
where
    Pipeline<A, lightmotif::pli::dispatch::Dispatch>: Stripe<A, U32>,
{
    for it in 0..n {
        // ---- Background::from_sequences
        let ns = rng.gen_range(0..5);
        let seqs: Vec<Vec<usize>> = (0..ns).map(|_| { let l = rng.gen_range(0..30); random_ranks::<A>(rng, l, if it % 3 == 0 { 1.0 } else { 0.1 }) }).collect();
        let unknown = it % 2 == 0;
        let r = guarded(|| {
            let enc: Vec<EncodedSequence<A>> = seqs.iter().map(|s| EncodedSequence::new(A::syms(s))).collect();
            match Background::<A>::from_sequences(enc.iter().map(|e| { let s: &[A::Symbol] = e.as_ref(); s }), unknown) {
                Ok(b) => json!({"ret":"ok","q": b.frequencies().iter().map(|&x| quant(x as f64, 4096.0)).collect::<Vec<_>>()}),
                Err(_) => json!({"ret":"err","q":[]}),
            }
        });
        emit(rec, "bg_from_seqs", r, json!({"ev":"bg_from_seqs","K":A::KK,"seqs":seqs,"unknown":unknown}));
        // ---- consensus / entropy / correlation of a count matrix without empty rows
        let m = rng.gen_range(1..8);
        let rows: Vec<Vec<u32>> = (0..m).map(|_| { let mut r = vec![0u32; A::KK]; for _ in 0..rng.gen_range(1..25) { r[rng.gen_range(0..(A::KK - 1).min(4 + it % 3))] += 1; } r }).collect();
        let r = guarded(|| {
            let cm = counts_of::<A>(&rows);
            let cons = cm.consensus();
            let sym: Vec<usize> = cons.bytes().map(|b| A::Symbol::from_ascii(b.to_ascii_uppercase()).unwrap().as_index()).collect();
            let lower: Vec<bool> = cons.bytes().map(|b| b.is_ascii_lowercase()).collect();
            json!({"sym": sym, "lower": lower})
        });
        emit(rec, "consensus", r, json!({"ev":"consensus","K":A::KK,"m":rows}));
        let r = guarded(|| json!({"q": counts_of::<A>(&rows).entropy().iter().map(|&x| quant(x as f64, 1024.0)).collect::<Vec<_>>()}));
        emit(rec, "entropy", r, json!({"ev":"entropy","K":A::KK,"m":rows}));
        let r = guarded(|| {
            let cm = counts_of::<A>(&rows);
            json!({"auto0": quant(cm.auto_correlation(0) as f64, 4096.0), "cross_self": quant(cm.cross_correlation(&cm) as f64, 4096.0),
                   "autos": (1..m).map(|d| quant(cm.auto_correlation(d) as f64, 4096.0)).collect::<Vec<_>>()})
        });
        emit(rec, "correlation", r, json!({"ev":"correlation","K":A::KK,"m":rows}));
        // ---- sampling
        let len = rng.gen_range(0..100);
        let mut bn = vec![0i64; A::KK];
        for _ in 0..8 { bn[rng.gen_range(0..A::KK - 1)] += 1; }
        let striped = it % 2 == 1;
        let r = guarded(|| {
            let f: generic_array::GenericArray<f32, A::K> = bn.iter().map(|&x| x as f32 / 8.0).collect();
            let bg = Background::<A>::new(f).unwrap();
            let srng = rand::rngs::StdRng::seed_from_u64(rng.gen());
            if striped {
                let s = StripedSequence::<A, U32>::sample(srng, bg, len);
                let seq: Vec<usize> = (0..s.len()).map(|i| s[i].as_index()).collect();
                let rows: Vec<Vec<usize>> = (0..s.matrix().rows()).map(|i| s.matrix()[i].iter().map(|x| x.as_index()).collect()).collect();
                json!({"seq": seq, "rows": rows})
            } else {
                let s = EncodedSequence::<A>::sample(srng, bg, len);
                json!({"seq": s.iter().map(|x| x.as_index()).collect::<Vec<_>>(), "rows": []})
            }
        });
        emit(rec, "sample", r, json!({"ev":"sample","K":A::KK,"C":32,"len":len,"bn":bn,"kind": if striped {"striped"} else {"encoded"}}));
    }
}

pub fn record(rec: &mut Recorder, seed: u64, thorough: bool) {
    let mut r = rng(seed, 99);
    let n = if thorough { 300 } else { 60 };
    campaign::<Dna>(rec, &mut r, n);
    campaign::<Protein>(rec, &mut r, n / 2);
    for it in 0..n {
        // ---- StripedScores iterator: forward, reversed, exact size
        let l = r.gen_range(0..120);
        let m = r.gen_range(1..6);
        let ranks = random_ranks::<Dna>(&mut r, l, 0.05);
        let cells = random_pssm::<Dna>(&mut r, m, 0.0, true, 20);
        let res = guarded(|| {
            let pssm = build_pssm::<Dna>(&cells);
            let mut seq: StripedSequence<Dna, U32> = Pipeline::<Dna, _>::generic().stripe(Dna::syms(&ranks));
            seq.configure(&pssm);
            let sc = Pipeline::<Dna, _>::dispatch().score(&pssm, &seq);
            let fwd: Vec<Value> = sc.iter().map(|&x| grid(x, GS)).collect();
            let rev: Vec<Value> = sc.iter().rev().map(|&x| grid(x, GS)).collect();
            let mut it2 = sc.iter(); let _ = it2.next();
            json!({"fwd": fwd, "rev": rev, "len": sc.iter().len(), "len_after_one": it2.len()})
        });
        emit(rec, "scores_iter", res, json!({"ev":"scores_iter"}));
        // ---- Hit ordering
        let hits: Vec<(i64, usize)> = (0..r.gen_range(0..12)).map(|_| (r.gen_range(-5..5), r.gen_range(0..6))).collect();
        let res = guarded(|| {
            let mut hs: Vec<Hit> = hits.iter().map(|&(s, p)| Hit::new(p, s as f32 / 4.0)).collect();
            hs.sort();
            json!({"sorted": hs.iter().map(|h| json!([grid(h.score(), GS), h.position()])).collect::<Vec<_>>()})
        });
        emit(rec, "hit_order", res, json!({"ev":"hit_order","hits": hits.iter().map(|&(s, p)| json!([s, p])).collect::<Vec<_>>()}));
        // ---- scale / unscale bracket
        let cells = random_pssm::<Dna>(&mut r, m, 0.0, true, 20);
        let xs: Vec<i64> = (0..10).map(|_| r.gen_range(-100..100)).collect();
        let res = guarded(|| {
            let dm = build_pssm::<Dna>(&cells).to_discrete();
            let b: Vec<u8> = xs.iter().map(|&x| dm.scale(x as f32 / 4.0)).collect();
            // quantised at 1/64 to absorb f32 rounding; compared with one unit of slack in the specification (x is scaled likewise)
            json!({"b": b, "lo": b.iter().map(|&k| quant(dm.unscale(k) as f64, 64.0)).collect::<Vec<_>>(),
                   "hi": b.iter().map(|&k| quant(dm.unscale(k.saturating_add(1)) as f64, 64.0)).collect::<Vec<_>>(),
                   "x": xs.iter().map(|&x| x * 16).collect::<Vec<_>>(),
                   "inrange": true})
        });
        let _ = it;
        emit(rec, "scale_bracket", res, json!({"ev":"scale_bracket","pssm":cells}));
    }
}
