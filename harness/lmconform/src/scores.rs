//! StripedScores object (spec/Scores.tla): replayer (spec -> impl) of the behaviours of MC_Scores and recorder
//! (impl -> spec) of random operation histories, validated by Trace_Scores.  Part of the check of C07 (the reductions
//! read this object; what they cover is stated over its cells).
use lightmotif::abc::Dna;
use lightmotif::dense::MatrixCoordinates;
use lightmotif::num::*;
use lightmotif::pli::{Maximum, Pipeline, Threshold};
use lightmotif::scores::StripedScores;
use rand::Rng;
use serde_json::{json, Value};

use crate::c19::Elem;
use crate::util::*;

/// the reductions under one name: the generic pipeline (any column count) or the convenience methods of the object
/// (dispatched pipeline; they only exist at the dispatch width)
pub trait Reducer<T: lightmotif::dense::MatrixElement, C: PositiveLength> {
    const NAME: &'static str;
    fn max(sc: &StripedScores<T, C>) -> Option<T>;
    fn argmax(sc: &StripedScores<T, C>) -> Option<usize>;
    fn threshold(sc: &StripedScores<T, C>, t: T) -> Vec<usize>;
}
pub struct Gen;
impl<T: lightmotif::dense::MatrixElement + PartialOrd, C: PositiveLength> Reducer<T, C> for Gen {
    const NAME: &'static str = "generic";
    fn max(sc: &StripedScores<T, C>) -> Option<T> {
        Pipeline::<Dna, _>::generic().max(sc)
    }
    fn argmax(sc: &StripedScores<T, C>) -> Option<usize> {
        Pipeline::<Dna, _>::generic().argmax(sc).map(|mc| sc.offset(mc))
    }
    fn threshold(sc: &StripedScores<T, C>, t: T) -> Vec<usize> {
        Pipeline::<Dna, _>::generic().threshold(sc, t).into_iter().map(|mc| sc.offset(mc)).collect()
    }
}
pub struct Conv;
macro_rules! conv {
    ($t:ty) => {
        impl Reducer<$t, U32> for Conv {
            const NAME: &'static str = "methods";
            fn max(sc: &StripedScores<$t, U32>) -> Option<$t> {
                sc.max()
            }
            fn argmax(sc: &StripedScores<$t, U32>) -> Option<usize> {
                sc.argmax()
            }
            fn threshold(sc: &StripedScores<$t, U32>, t: $t) -> Vec<usize> {
                sc.threshold(t)
            }
        }
    };
}
conv!(f32);
conv!(u8);

fn cells<T: Elem + lightmotif::dense::MatrixElement, C: PositiveLength>(sc: &StripedScores<T, C>) -> Value {
    let m = sc.matrix();
    Value::Array((0..m.rows()).map(|i| Value::Array(m[i].iter().map(|x| json!(x.to_i())).collect())).collect())
}

fn state<T: Elem + lightmotif::dense::MatrixElement, C: PositiveLength>(sc: &StripedScores<T, C>) -> Value {
    // `nv`: the recorded length as far as the listed properties can see it (clamped to the table); the accessor itself is
    // bound as behaviour beyond the properties (extras)
    json!({"m": cells(sc), "nv": sc.max_index().min(sc.matrix().rows() * C::USIZE)})
}

/// one operation of spec/Scores.tla on the real object; returns the observation in the specification's shape
/// `lin`: the number of valid positions is observed through the iterator (histories of the linear view, C01); otherwise
/// it is taken from the accessors, so that the histories of the reductions (C07) do not depend on the iterator at all
fn apply<T, C, R>(sc: &mut StripedScores<T, C>, o: &Value, lin: bool) -> Value
where
    T: Elem + lightmotif::dense::MatrixElement + PartialOrd,
    C: PositiveLength,
    R: Reducer<T, C>,
{
    let u = |k: &str| o[k].as_u64().unwrap() as usize;
    let nvalid = |sc: &StripedScores<T, C>| if lin { sc.iter().len() } else { sc.max_index().min(sc.matrix().rows() * C::USIZE) };
    match o["op"].as_str().unwrap() {
        "resize" => {
            sc.resize(u("r"), u("mi"));
            json!(nvalid(sc))
        }
        "set" => {
            sc.matrix_mut()[u("i") - 1][u("j") - 1] = T::from_i(o["v"].as_i64().unwrap());
            json!(nvalid(sc))
        }
        "fill" => {
            sc.matrix_mut().fill(T::from_i(o["v"].as_i64().unwrap()));
            json!(nvalid(sc))
        }
        "unstripe" => {
            let a: Vec<i64> = sc.unstripe().iter().map(|x| x.to_i()).collect();
            let b: Vec<i64> = Vec::from(sc.clone()).into_iter().map(|x| x.to_i()).collect();
            let c: Vec<i64> = sc.iter().map(|x| x.to_i()).collect();
            let mut d: Vec<i64> = sc.iter().rev().map(|x| x.to_i()).collect();
            d.reverse();
            let hint = sc.iter().size_hint();
            if a != b || a != c || a != d || hint != (a.len(), Some(a.len())) {
                json!({"deviation": "unstripe, Vec::from, iter, reversed iteration and size_hint disagree", "obs": a, "vec_from": b, "iter": c, "rev_reversed": d, "size_hint": [hint.0, hint.1]})
            } else {
                json!(a)
            }
        }
        "index" => json!(sc[u("i")].to_i()),
        "offset" => json!(sc.offset(MatrixCoordinates::new(u("i") - 1, u("j") - 1))),
        "iter_ends" => {
            let mut it = sc.iter();
            let mut y = Vec::new();
            for rq in o["pat"].as_array().unwrap() {
                let k = rq[1].as_u64().unwrap() as usize;
                let got = match (rq[0].as_str().unwrap(), k) {
                    ("f", 0) => it.next(),
                    ("f", k) => it.nth(k),
                    ("b", 0) => it.next_back(),
                    (_, k) => it.nth_back(k),
                };
                y.push(got.map(|x| x.to_i()).unwrap_or(-1));
            }
            json!({"y": y, "n": it.len()})
        }
        "max" => {
            let m = R::max(sc);
            let am = R::argmax(sc);
            match (m, am) {
                (None, None) => json!([]),
                (Some(v), Some(off)) => {
                    // arg-maximum is a relation (any cell holding the maximum): checked here against the table the
                    // object itself exposes, the value goes to the specification
                    let rows = sc.matrix().rows();
                    let ok = rows > 0 && off < rows * C::USIZE && sc.matrix()[off % rows][off / rows] == v;
                    if ok {
                        json!([v.to_i()])
                    } else {
                        json!({"deviation": "argmax is not the offset of a cell holding the maximum", "obs": [v.to_i()], "offset": off})
                    }
                }
                (a, b) => json!({"deviation": "max and argmax disagree on whether the table is empty", "obs": a.map(|x| vec![x.to_i()]).unwrap_or_default(), "argmax": b.map(|x| x as i64).unwrap_or(-1)}),
            }
        }
        "threshold" => {
            let mut v = R::threshold(sc, T::from_i(o["t"].as_i64().unwrap()));
            v.sort();
            json!(v)
        }
        other => panic!("unknown op {}", other),
    }
}

// ------------------------------------------------------------------ replay (spec -> impl)

fn replay_one<T, C>(hist: &Value, mismatches: &mut Vec<Value>, steps: &mut usize, bi: usize, lin: bool)
where
    T: Elem + lightmotif::dense::MatrixElement + PartialOrd,
    C: PositiveLength,
{
    let mut sc: StripedScores<T, C> = StripedScores::empty();
    for (k, step) in hist.as_array().unwrap().iter().enumerate() {
        let o = &step["op"];
        let r = guarded(|| apply::<T, C, Gen>(&mut sc, o, lin)).and_then(|obs| guarded(|| (obs, state(&sc))));
        *steps += 1;
        let bad = match r {
            Err(m) => Some(json!({"panic": m})),
            Ok((obs, got)) => {
                let want_nv = step["post"]["mi"].as_u64().unwrap().min((step["post"]["m"].as_array().unwrap().len() * C::USIZE) as u64);
                if got["m"] != step["post"]["m"] || got["nv"] != json!(want_nv) || obs != step["obs"] {
                    Some(json!({"post": got, "obs": obs}))
                } else {
                    None
                }
            }
        };
        if let Some(b) = bad {
            if mismatches.len() < 5 {
                mismatches.push(json!({"behaviour": bi, "step": k, "elem": T::NAME, "C": C::USIZE, "op": o, "expected": step, "actual": b, "history": hist}));
            } else {
                mismatches.push(json!({"behaviour": bi, "step": k}));
            }
            return;
        }
    }
}

/// Replay the behaviours of MC_Scores (first line: the constants of the model) on the real StripedScores<T, C>.
pub fn replay(path: &str) -> Value {
    let text = std::fs::read_to_string(path).expect("replay file");
    let mut mismatches = Vec::new();
    let mut steps = 0usize;
    let mut behaviours = 0usize;
    let mut lines = text.lines();
    let hdr: Value = serde_json::from_str(lines.next().unwrap()).unwrap();
    let c = hdr["C"].as_u64().unwrap();
    let lin = hdr["OpsMode"].as_str().map(|m| m.contains("linear")).unwrap_or(true);
    for (bi, line) in lines.enumerate() {
        let hist: Value = serde_json::from_str(line).unwrap();
        behaviours += 1;
        beat();
        macro_rules! run {
            ($c:ty) => {{
                replay_one::<u8, $c>(&hist, &mut mismatches, &mut steps, bi, lin);
                replay_one::<u32, $c>(&hist, &mut mismatches, &mut steps, bi, lin);
                replay_one::<f32, $c>(&hist, &mut mismatches, &mut steps, bi, lin);
            }};
        }
        match c {
            1 => run!(U1),
            2 => run!(U2),
            3 => run!(U3),
            _ => panic!("unsupported C"),
        }
    }
    json!({"behaviours": behaviours, "steps": steps, "mismatches": mismatches})
}

// ------------------------------------------------------------------ record (impl -> spec)

fn random_op<C: PositiveLength>(rng: &mut impl Rng, rows: usize, valid: usize, kmod: i64, lin: bool) -> Value {
    let cells = rows * C::USIZE;
    loop {
        let pick = rng.gen_range(0..100);
        return match pick {
            0..=17 => {
                let r = match rng.gen_range(0..8) {
                    0 => 0,
                    1 => rows,
                    2 => rows + 1,
                    3 => rows.saturating_sub(1),
                    _ => rng.gen_range(0..7),
                };
                let cl = r * C::USIZE;
                let mi = match rng.gen_range(0..8) {
                    0 => 0,
                    1 => cl,
                    2 => cl + 1 + rng.gen_range(0..40),
                    3 => cl.saturating_sub(1),
                    4 => cl.saturating_sub(r),      // last column empty
                    5 => (cl / 2 / r.max(1)) * r.max(1), // a multiple of the rows
                    _ => rng.gen_range(0..=cl),
                };
                json!({"op": "resize", "r": r, "mi": mi})
            }
            18..=37 if rows > 0 => json!({"op": "set", "i": rng.gen_range(1..=rows), "j": rng.gen_range(1..=C::USIZE), "v": rng.gen_range(1..kmod)}),
            38..=41 if rows > 0 => json!({"op": "fill", "v": rng.gen_range(1..kmod)}),
            42..=51 if lin => json!({"op": "unstripe"}),
            52..=61 if lin && cells > 0 => {
                let i = match rng.gen_range(0..4) { 0 => cells - 1, 1 if valid > 0 => valid - 1, 2 => 0, _ => rng.gen_range(0..cells) };
                json!({"op": "index", "i": i})
            }
            62..=67 if !lin && rows > 0 => json!({"op": "offset", "i": rng.gen_range(1..=rows), "j": rng.gen_range(1..=C::USIZE)}),
            68..=81 if lin => {
                let n = rng.gen_range(1..7);
                let pat: Vec<Value> = (0..n)
                    .map(|_| {
                        let e = if rng.gen_bool(0.5) { "f" } else { "b" };
                        let k = if rng.gen_bool(0.6) { 0 } else if rng.gen_bool(0.7) { rng.gen_range(1..4) } else { valid / 2 + rng.gen_range(0..3) };
                        json!([e, k])
                    })
                    .collect();
                json!({"op": "iter_ends", "pat": pat})
            }
            82..=90 if !lin => json!({"op": "max"}),
            91..=99 if !lin => json!({"op": "threshold", "t": rng.gen_range(1..kmod)}),
            _ => continue,
        };
    }
}

fn record_one<T, C, R>(rec: &mut Recorder, seed: u64, stream: u64, len: usize, lin: bool)
where
    T: Elem + lightmotif::dense::MatrixElement + PartialOrd,
    C: PositiveLength,
    R: Reducer<T, C>,
{
    let mut rng = rng(seed, 0x5C0E_0000 + stream);
    rec.reset();
    rec.emit(json!({"ev": "scores_cfg", "C": C::USIZE, "elem": T::NAME, "reducer": R::NAME, "mode": if lin { "linear" } else { "reduce" }}));
    let mut sc: StripedScores<T, C> = if rng.gen_bool(0.5) { StripedScores::empty() } else { StripedScores::default() };
    let kmod = T::KMOD.min(8);
    for _ in 0..len {
        beat();
        let rows = sc.matrix().rows();
        let valid = sc.max_index().min(rows * C::USIZE);
        let o = random_op::<C>(&mut rng, rows, valid, kmod, lin);
        let opn = o["op"].as_str().unwrap().to_string();
        set_pending(format!("scores {} C={} {}", T::NAME, C::USIZE, o));
        let r = guarded(|| apply::<T, C, R>(&mut sc, &o, lin)).and_then(|obs| guarded(|| (obs, state(&sc))));
        match r {
            Ok((obs, ps)) => {
                rec.class(&format!("scores_{}", opn));
                if opn == "resize" {
                    let (r, mi) = (o["r"].as_u64().unwrap() as usize, o["mi"].as_u64().unwrap() as usize);
                    rec.class(if mi > r * C::USIZE { "recorded_length_beyond_table" } else if mi == r * C::USIZE { "recorded_length_fills_table" } else { "recorded_length_inside_table" });
                }
                rec.nontrivial(&(T::NAME, C::USIZE, R::NAME, o.to_string(), ps.to_string()));
                // cross-checks made by the harness on the object itself travel as `dev` (TLC cannot compare values of
                // different shapes, so the observation keeps the specification's shape)
                let (obs, dev, info) = match obs.get("deviation") {
                    Some(d) => (obs["obs"].clone(), d.clone(), obs.clone()),
                    None => (obs, json!("none"), json!(0)),
                };
                rec.emit(json!({"ev": "scores", "o": o, "obs": obs, "dev": dev, "devinfo": info, "ret": "ok", "post": ps}));
            }
            Err(msg) => {
                rec.class("panic");
                rec.emit(json!({"ev": "scores", "o": o, "ret": "panic", "msg": msg}));
                return;
            }
        }
    }
}

pub fn record(rec: &mut Recorder, seed: u64, thorough: bool, lin: bool) {
    let len = if thorough { 120 } else { 40 };
    let reps = if thorough { 6 } else { 2 };
    let mut stream = 0u64;
    macro_rules! next {
        () => {{
            stream += 1;
            stream
        }};
    }
    for _ in 0..reps {
        record_one::<f32, U32, Conv>(rec, seed, next!(), len, lin);
        record_one::<u8, U32, Conv>(rec, seed, next!(), len, lin);
        record_one::<f32, U32, Gen>(rec, seed, next!(), len, lin);
        record_one::<u8, U32, Gen>(rec, seed, next!(), len, lin);
        record_one::<u32, U32, Gen>(rec, seed, next!(), len, lin);
        record_one::<f32, U16, Gen>(rec, seed, next!(), len, lin);
        record_one::<u8, U16, Gen>(rec, seed, next!(), len, lin);
        record_one::<f32, U4, Gen>(rec, seed, next!(), len, lin);
        record_one::<u8, U5, Gen>(rec, seed, next!(), len, lin);
        record_one::<u32, U1, Gen>(rec, seed, next!(), len, lin);
        record_one::<f32, U43, Gen>(rec, seed, next!(), len, lin);
    }
}
