//! C02 / C03 - block scanner: recorder (impl -> spec).
use lightmotif::abc::Dna;
use lightmotif::num::*;
use lightmotif::scan::Scanner;
use lightmotif::scores::StripedScores;
use rand::Rng;
use serde_json::{json, Value};

use crate::c01::{build_pssm, build_seq, GS};
use crate::pipe::*;
use crate::util::*;

type A = Dna;
const KK: usize = 5;

pub struct Input {
    pub ranks: Vec<usize>,
    pub pssm: Vec<Vec<i64>>,
    pub thr: i64,
    pub thr_kind: &'static str,
}

fn window_scores(inp_pssm: &[Vec<i64>], ranks: &[usize]) -> Vec<i64> {
    let m = inp_pssm.len();
    if ranks.len() < m { return vec![]; }
    (0..=ranks.len() - m)
        .map(|i| {
            let mut s = 0i64;
            for j in 0..m {
                let v = inp_pssm[j][ranks[i + j]];
                if v == NINF || s == NINF { s = NINF } else { s += v }
            }
            s
        })
        .collect()
}

/// matrices: finite steep / flat / with -inf entries (as produced from zero counts); wildcard column -inf
fn gen_pssm(rng: &mut impl Rng, m: usize, kind: usize) -> Vec<Vec<i64>> {
    (0..m)
        .map(|_| {
            let mut row: Vec<i64> = (0..KK - 1)
                .map(|_| match kind % 5 {
                    0 => rng.gen_range(-20..=20),
                    1 => if rng.gen_bool(0.3) { rng.gen_range(8..=16) } else { rng.gen_range(-30..=-8) },
                    2 => rng.gen_range(-2..=2),
                    3 => if rng.gen_bool(0.15) { NINF } else { rng.gen_range(-12..=12) },   // -inf cells
                    _ => [0i64, 1, 2, 3][rng.gen_range(0..4)],                               // near-ties after 8-bit rounding
                })
                .collect();
            // wildcard column: -inf (what count data gives), or finite: low, neutral (0), or just below the row maximum
            // (then a window holding an N can be the best site, and its 8-bit score depends on the discretised N cell)
            let rmax = row.iter().cloned().filter(|&x| x != NINF).max().unwrap_or(0);
            row.push(if kind % 7 == 6 || kind % 9 == 4 { match rng.gen_range(0..3) { 0 => rng.gen_range(-10..=0), 1 => 0, _ => rmax - 1 } } else { NINF });
            row
        })
        .collect()
}

fn gen_seq(rng: &mut impl Rng, l: usize, pssm: &[Vec<i64>], kind: usize, plant: bool) -> Vec<usize> {
    let m = pssm.len();
    let mut s: Vec<usize> = match kind % 3 {
        0 => random_ranks::<A>(rng, l, 0.0),
        1 => random_ranks::<A>(rng, l, 0.08),
        _ => (0..l).map(|_| rng.gen_range(0..2)).collect(),     // low complexity: many tied windows
    };
    if l >= m && m > 0 && plant {
        // plant consensus and near-consensus words
        let cons: Vec<usize> = pssm.iter().map(|row| row[..KK - 1].iter().enumerate().max_by_key(|x| *x.1).unwrap().0).collect();
        for _ in 0..rng.gen_range(0..4) {
            let p = rng.gen_range(0..=l - m);
            let mut w = cons.clone();
            if rng.gen_bool(0.6) { let j = rng.gen_range(0..m); w[j] = rng.gen_range(0..KK - 1); }
            if pssm[0][KK - 1] != NINF && rng.gen_bool(0.6) { let j = rng.gen_range(0..m); w[j] = KK - 1; }   // a near-consensus site holding an N
            s[p..p + m].copy_from_slice(&w);
        }
    }
    s
}

fn gen_thr(_rng: &mut impl Rng, pssm: &[Vec<i64>], scores: &[i64], kind: usize) -> (i64, &'static str) {
    let fin = |r: &Vec<i64>, best: bool| -> i64 {
        let it = r[..KK - 1].iter().filter(|&&x| x != NINF);
        (if best { it.max() } else { it.min() }).cloned().unwrap_or(0)
    };
    let maxs: i64 = pssm.iter().map(|r| fin(r, true)).sum();
    let mins: i64 = pssm.iter().map(|r| fin(r, false)).sum();
    let mut finite: Vec<i64> = scores.iter().cloned().filter(|&x| x != NINF).collect();
    finite.sort();
    match kind % 8 {
        0 => (maxs + 1, "above_max"),
        1 => (mins, "min_score"),
        2 => (mins - 5, "below_min"),
        3 => (NINF, "neg_inf"),
        4 if !finite.is_empty() => (finite[finite.len() - 1], "exactly_best"),
        5 if !finite.is_empty() => (finite[finite.len() * 3 / 4], "quantile_75"),
        6 if !finite.is_empty() => (finite[finite.len() / 2] + 1, "just_above_a_score"),
        _ => ((maxs + mins) / 2, "midrange"),
    }
}

pub fn gen_input(rng: &mut impl Rng, l: usize, m: usize, kind: usize, plant: bool) -> Input {
    let pssm = gen_pssm(rng, m, kind);
    let ranks = gen_seq(rng, l, &pssm, kind / 5, plant);
    let scores = window_scores(&pssm, &ranks);
    let tk = rng.gen_range(0..8);
    let (thr, thr_kind) = gen_thr(rng, &pssm, &scores, tk);
    Input { ranks, pssm, thr, thr_kind }
}

/// Run one scanner history.  `k_next` = None: iterate to exhaustion; Some(k): k next() calls then max().
pub fn history(rec: &mut Recorder, inp: &Input, arm: Arm, bs: usize, k_next: Option<usize>, own_buffer: bool, tag: &str) {
    let l = inp.ranks.len();
    let m = inp.pssm.len();
    let pssm = build_pssm::<A>(&inp.pssm);
    let mut seq = build_seq::<A, U32>(&inp.ranks, 0);
    // every third scanner works on a sequence that was already configured for one or two SHORTER motifs
    // (the way one striped sequence is scanned with several motifs), every seventh for a longer one
    let hsel = (inp.ranks.len() + m).wrapping_add(bs % 1009);
    if hsel % 3 == 0 && m >= 3 {
        seq.configure_wrap(1 + hsel % (m - 2));
        if hsel % 2 == 0 { seq.configure_wrap(m - 2); }
        rec.class("sequence_previously_configured_for_shorter_motif");
    } else if hsel % 7 == 0 {
        seq.configure_wrap(m + 3);
        rec.class("sequence_previously_configured_for_longer_motif");
    }
    seq.configure(&pssm);
    let thr = ungrid(inp.thr, GS);
    let mut buffer = StripedScores::<f32, U32>::empty();
    force(Some(arm));
    rec.reset();
    let rows = (l + 31) / 32;
    let d8: Vec<Vec<u8>> = { let dm = pssm.to_discrete(); (0..m).map(|i| dm.matrix()[i].to_vec()).collect() };
    let cfg = json!({"ev":"scan_new","arm":arm.name(),"K":KK,"seq":inp.ranks,"pssm":inp.pssm,"thr":inp.thr,"thr_kind":inp.thr_kind,
                     "bs": if bs > (1 << 30) { -1 } else { bs as i64 },"L":l,"M":m,"rows":rows,"tag":tag,"pssm8":d8});
    let created = guarded(|| {
        let mut sc = Scanner::new(&pssm, &seq);
        sc.threshold(thr).block_size(bs);
        sc
    });
    let mut scanner = match created {
        Ok(s) => s,
        Err(msg) => {
            let mut c = cfg; c["ret"] = json!("panic"); c["msg"] = json!(msg);
            rec.emit(c); force(None); return;
        }
    };
    if own_buffer { scanner.scores(&mut buffer); }
    { let mut c = cfg; c["ret"] = json!("ok"); rec.emit(c); }
    rec.class(&format!("thr_{}", inp.thr_kind));
    if l < m { rec.class("L<M"); }
    if l == 0 { rec.class("empty_sequence"); }
    if rows > 0 && bs > 0 && (rows % bs == 0 || (rows + m - 1) / bs != rows / bs || rows % bs + m > bs) { rec.class("block_boundary_near_last_rows"); }
    rec.nontrivial(&(arm.name(), inp.ranks.clone(), inp.pssm.clone(), inp.thr, bs, k_next));
    let cap = l + 2;
    let mut calls = 0;
    let budget = k_next.unwrap_or(usize::MAX);
    let mut exhausted = false;
    while calls < budget {
        if calls >= cap {
            rec.emit(json!({"ev":"next","ret":"hang"}));
            rec.class("hang");
            force(None);
            return;
        }
        let r = guarded(|| scanner.next());
        calls += 1;
        match r {
            Ok(Some(h)) => rec.emit(json!({"ev":"next","ret":"hit","pos":h.position(),"score":grid(h.score(), GS)})),
            Ok(None) => { rec.emit(json!({"ev":"next","ret":"none"})); exhausted = true; break; }
            Err(msg) => { rec.class("panic_in_next"); rec.emit(json!({"ev":"next","ret":"panic","msg":msg})); force(None); return; }
        }
    }
    if k_next.is_some() {
        let _ = exhausted;
        // "asking a scanner for its best hit": the by-value Scanner::max, or - tag *_by_ref - the maximum taken over a
        // borrowed scanner (`scanner.by_ref().max()`, the provided Iterator::max over next() with `Ord for Hit`)
        let by_ref = tag.ends_with("by_ref");
        if tag.contains("raised") {
            // the threshold is raised between the consumed hits and the request for the best one: to the score of one of
            // the qualifying positions, just above the best score (nothing qualifies any more) or to itself
            let mut q: Vec<i64> = window_scores(&inp.pssm, &inp.ranks).into_iter().filter(|&s| s >= inp.thr).collect();
            q.sort();
            let t2 = match (calls + l + m) % 4 {
                0 => inp.thr,
                1 if !q.is_empty() => q[q.len() - 1] + 1,
                2 if !q.is_empty() => q[q.len() - 1],
                _ if !q.is_empty() => q[(q.len() * 2) / 3],
                _ => inp.thr + 3,
            };
            scanner.threshold(ungrid(t2, GS));
            rec.emit(json!({"ev":"raise","thr":t2}));
            rec.class("threshold_raised_before_max");
        }
        let r = guarded(move || if by_ref { scanner.by_ref().max() } else { scanner.max() });
        match r {
            Ok(Some(h)) => rec.emit(json!({"ev":"max","ret":"hit","pos":h.position(),"score":grid(h.score(), GS)})),
            Ok(None) => rec.emit(json!({"ev":"max","ret":"none"})),
            Err(msg) => { rec.class("panic_in_max"); rec.emit(json!({"ev":"max","ret":"panic","msg":msg})); }
        }
        rec.class("max_after_k_next");
    }
    force(None);
}

fn shapes(thorough: bool, rng: &mut impl Rng) -> Vec<(usize, usize, usize)> {
    // (L, M, bs): lengths 32*R - delta around block boundaries, widths incl. M > L, small block sizes and the default
    let mut v = Vec::new();
    let rs: Vec<usize> = if thorough { (0..=12).collect() } else { vec![0, 1, 2, 3, 4, 6, 8, 9] };
    for &r in &rs {
        let deltas: Vec<usize> = if thorough { (0..=33).collect() } else { vec![0, 1, 2, 15, 31, 32, 33, rng.gen_range(3..31)] };
        for &d in &deltas {
            if 32 * r < d { continue; }
            let l = 32 * r - d;
            let m = match rng.gen_range(0..8) { 0 => 1, 1 => 2, 2 => l + 1, 3 => l.max(1), 4 => rng.gen_range(8..=20), _ => rng.gen_range(1..=8) };
            let m = m.clamp(1, 24);
            let bs = [1usize, 2, 3, 4, 7, 256][rng.gen_range(0..6)];
            v.push((l, m, bs));
        }
    }
    v
}

fn big_shapes(thorough: bool, rng: &mut impl Rng) -> Vec<(usize, usize, usize)> {
    let mut v = vec![];
    let rs: &[usize] = if thorough { &[255, 256, 257, 258, 511, 512, 513] } else { &[256] };
    for &r in rs {
        for d in if thorough { vec![0usize, 1, 31] } else { vec![rng.gen_range(0..32)] } {
            v.push((32 * r - d, rng.gen_range(2..5), 256));
        }
    }
    v
}

/// Sequences exactly as long as the motif (one valid position) and one symbol longer, for a range of widths, on every arm.
fn exact_fit(rec: &mut Recorder, r: &mut impl Rng, thorough: bool, k_mode: Option<()>) {
    // widths up to 24, and motifs longer than the 32 columns of the striped layout (the last rows of the score table
    // then hold padding only)
    let mut widths: Vec<usize> = if thorough { (1..=24).collect() } else { vec![1, 2, 3, 5, 8, 13, 20] };
    widths.extend(if thorough { vec![33usize, 40, 48, 64, 98] } else { vec![33usize, 48, 64] });
    for (i, &m) in widths.iter().enumerate() {
        for extra in [0usize, 1, 2] {
            if extra == 2 && m < 32 { continue; }
            let l = m + extra;
            let mut inp = gen_input(r, l, m, 7 * i + extra, false);
            // thresholds that the only window(s) can meet
            let sc = window_scores(&inp.pssm, &inp.ranks);
            let best = sc.iter().cloned().filter(|&x| x != NINF).max();
            let (thr, kind) = match (i + extra) % 3 { 0 => (NINF, "neg_inf"), 1 => (best.unwrap_or(0), "exactly_best"), _ => (best.unwrap_or(0) - 2, "just_below_best") };
            inp.thr = thr; inp.thr_kind = kind;
            for arm in Arm::all() {
                match k_mode {
                    None => history(rec, &inp, arm, if m > 32 { [1usize, 2][extra % 2] } else { [1usize, 256][i % 2] }, None, false, "exact_fit"),
                    Some(()) => history(rec, &inp, arm, if m > 32 { [1usize, 2][extra % 2] } else { [256usize, 1][i % 2] }, Some(0), false, "max_exact_fit"),
                }
            }
            rec.class("sequence_as_long_as_the_motif");
        }
    }
}

/// Iteration to exhaustion on a sequence with more than 65 536 striped rows and block sizes beyond that (see `huge_block`):
/// the event carries the hits and the recorder's own naive list of qualifying positions.
fn huge_scan(rec: &mut Recorder, r: &mut impl Rng, thorough: bool) {
    let l: usize = 2_097_152 + 32 * r.gen_range(1..200) + r.gen_range(0..32);
    let m = r.gen_range(3..=6);
    let pssm = gen_pssm(r, m, 0);
    let mut ranks = random_ranks::<A>(r, l, 0.0);
    let cons: Vec<usize> = pssm.iter().map(|row| row[..KK - 1].iter().enumerate().max_by_key(|x| *x.1).unwrap().0).collect();
    for _ in 0..3 { let p = r.gen_range(0..l - m); ranks[p..p + m].copy_from_slice(&cons); }
    let scores = window_scores(&pssm, &ranks);
    let best = *scores.iter().max().unwrap();
    let mat = build_pssm::<A>(&pssm);
    let mut seq = build_seq::<A, U32>(&ranks, 0);
    seq.configure(&mat);
    let sizes: Vec<usize> = if thorough { vec![65_536, 65_537, 1 << 20, usize::MAX] } else { vec![usize::MAX] };
    for &bs in &sizes {
        let thr4 = best - 2;
        let want: Vec<Value> = scores.iter().enumerate().filter(|(_, &s)| s >= thr4).map(|(i, &s)| json!([i, s])).collect();
        force(Some(Arm::Avx2));
        let res = guarded(|| {
            let mut sc = Scanner::new(&mat, &seq);
            sc.threshold(ungrid(thr4, GS)).block_size(bs);
            let mut hits: Vec<(usize, Value)> = Vec::new();
            for h in sc.by_ref().take(want.len() + 3) { hits.push((h.position(), grid(h.score(), GS))); }
            hits.sort_by_key(|x| x.0);
            hits
        });
        force(None);
        rec.reset();
        let mut e = json!({"ev":"scan_big","arm":"avx2","L":l,"M":m,"bs": if bs == usize::MAX { -1 } else { bs as i64 },"thr":thr4,"want":want,"pssm":pssm});
        match res {
            Ok(h) => { e["ret"] = json!("ok"); e["hits"] = json!(h.iter().map(|(p, s)| json!([p, s])).collect::<Vec<_>>()); }
            Err(msg) => { e["ret"] = json!("panic"); e["msg"] = json!(msg); e["hits"] = json!([]); }
        }
        rec.emit(e);
        rec.class("more_than_65536_rows_block_size_beyond");
        rec.nontrivial(&("huge_scan", l, m, bs, thr4));
    }
}

pub fn record_c02(rec: &mut Recorder, seed: u64, thorough: bool) {
    let mut r = rng(seed, 2);
    huge_scan(rec, &mut r, thorough);
    wildcard_sites(rec, &mut r, thorough, None);
    exact_fit(rec, &mut r, thorough, None);
    let mut kind = 0;
    for (l, m, bs) in shapes(thorough, &mut r).into_iter().chain(big_shapes(thorough, &mut r)) {
        for _ in 0..(if l <= 64 { 2 } else { 1 }) {
            kind += 1;
            // the consensus word is planted for the AVX2 arm only: on the other arms it would mostly exercise the known
            // non-saturating generic 8-bit kernel (C08) instead of the scanner logic
            let inp = gen_input(&mut r, l, m, kind, true);
            let plain = gen_input(&mut r, l, m, kind, false);
            for arm in Arm::all() {
                if l > 4000 && arm != Arm::Avx2 && !thorough { continue; }
                history(rec, if arm == Arm::Avx2 { &inp } else { &plain }, arm, bs, None, kind % 4 == 0, "exhaust");
            }
            if kind % 3 == 0 { history(rec, &plain, Arm::Avx2, bs, None, false, "exhaust"); }
        }
    }
}

/// Many buffered hits whose 8-bit images coincide: low threshold, a few next() calls, then max().
fn many_pending(rec: &mut Recorder, r: &mut impl Rng, thorough: bool) {
    let n = if thorough { 240 } else { 70 };
    for it in 0..n {
        let l = r.gen_range(40..700);
        let m = r.gen_range(6..=14);
        let pssm = gen_pssm(r, m, if it % 3 == 0 { 4 } else { 0 });       // wide range: coarse 8-bit steps over a 1/4 grid
        let ranks = gen_seq(r, l, &pssm, it, true);
        let mut scores: Vec<i64> = window_scores(&pssm, &ranks).into_iter().filter(|&x| x != NINF).collect();
        scores.sort();
        if scores.is_empty() { continue; }
        let (thr, thr_kind) = match it % 4 {
            0 => (scores[0] - 1, "below_min"),
            1 => (scores[scores.len() / 2], "quantile_50"),
            2 => (scores[scores.len() * 3 / 4], "quantile_75"),
            _ => (scores[scores.len() / 4], "quantile_25"),
        };
        let inp = Input { ranks, pssm, thr, thr_kind };
        let bs = [1usize, 2, 4, 16, 256][it % 5];
        let k = 1 + it % 3;
        history(rec, &inp, Arm::Avx2, bs, Some(k), it % 2 == 0, "max_many_pending");
        if it % 2 == 0 { history(rec, &inp, Arm::Avx2, [3usize, 256][it % 2], Some(k + 2), false, if it % 4 == 0 { "max_many_pending_by_ref" } else { "max_many_pending" }); }
    }
}

/// Matrices whose wildcard column is finite - neutral (0) where the other scores are mostly negative, or just below the
/// row maximum - and sequences whose best sites hold an N: the 8-bit pre-filter then depends on the discretised N cells.
/// `k_mode`: None = iterate to exhaustion (C02), Some(()) = next()^k ; max() (C03).
fn wildcard_sites(rec: &mut Recorder, r: &mut impl Rng, thorough: bool, k_mode: Option<()>) {
    let n = if thorough { 90 } else { 30 };
    for it in 0..n {
        let m = r.gen_range(3..=12);
        let l = r.gen_range(m + 20..400);
        let pssm: Vec<Vec<i64>> = (0..m).map(|_| {
            let mut row: Vec<i64> = (0..4).map(|_| if r.gen_bool(0.25) { r.gen_range(4..=12) } else { r.gen_range(-30..=-6) }).collect();
            let rmax = *row.iter().max().unwrap();
            row.push(match it % 3 { 0 => 0, 1 => rmax - 1, _ => r.gen_range(-4..=2) });
            row
        }).collect();
        let cons: Vec<usize> = pssm.iter().map(|row| row[..4].iter().enumerate().max_by_key(|x| *x.1).unwrap().0).collect();
        let mut ranks = random_ranks::<A>(r, l, 0.02);
        // several consensus sites, each with one to three positions replaced by N, in different rows / columns of the striped layout
        for _ in 0..r.gen_range(2..6) {
            let p = r.gen_range(0..=l - m);
            let mut w = cons.clone();
            for _ in 0..r.gen_range(1..=3) { let j = r.gen_range(0..m); w[j] = KK - 1; }
            ranks[p..p + m].copy_from_slice(&w);
        }
        let mut scores: Vec<i64> = window_scores(&pssm, &ranks).into_iter().filter(|&x| x != NINF).collect();
        scores.sort();
        if scores.is_empty() { continue; }
        let (thr, thr_kind) = match it % 4 {
            0 => (scores[scores.len() - 1], "exactly_best"),
            1 => (scores[scores.len() * 9 / 10], "quantile_90"),
            2 => (scores[scores.len() - 1] - 3, "just_below_best"),
            _ => (scores[scores.len() * 3 / 4], "quantile_75"),
        };
        let inp = Input { ranks, pssm, thr, thr_kind };
        let bs = [1usize, 2, 5, 256][it % 4];
        match k_mode {
            None => history(rec, &inp, Arm::Avx2, bs, None, it % 2 == 0, "wildcard_sites"),
            Some(()) => {
                history(rec, &inp, Arm::Avx2, bs, Some(it % 3), false, "max_wildcard_sites");
                if it % 2 == 0 { history(rec, &inp, Arm::Avx2, 256, Some(0), true, "max_wildcard_sites"); }
            }
        }
        rec.class("finite_wildcard_column_best_site_holds_N");
    }
}

/// Long motifs whose near-consensus words also saturate the 8-bit score: several near-consensus windows and one exact
/// consensus (the true maximum) in different blocks; max() must still return the exact consensus.
fn saturated_near_ties(rec: &mut Recorder, r: &mut impl Rng, thorough: bool) {
    let n = if thorough { 120 } else { 40 };
    for it in 0..n {
        let m = r.gen_range(12..=20);
        // every row: best symbol v, second best v - 1 (one grid step), the others far below
        let pssm: Vec<Vec<i64>> = (0..m).map(|_| {
            let best = r.gen_range(0..4); let mut second = r.gen_range(0..4); if second == best { second = (best + 1) % 4; }
            let v = r.gen_range(4..=8);
            let mut row = vec![-30i64; 4]; row[best] = v; row[second] = v - 1; row.push(NINF); row
        }).collect();
        let cons: Vec<usize> = pssm.iter().map(|row| row[..4].iter().enumerate().max_by_key(|x| *x.1).unwrap().0).collect();
        let second: Vec<usize> = pssm.iter().map(|row| row[..4].iter().enumerate().filter(|x| *x.1 > -30).min_by_key(|x| *x.1).unwrap().0).collect();
        let l = r.gen_range(10 * m..20 * m + 200);
        let mut ranks = random_ranks::<A>(r, l, 0.0);
        let slots = l / (m + 1);
        let exact = r.gen_range(0..slots);
        for sidx in 0..slots {
            if sidx != exact && !r.gen_bool(0.5) { continue; }
            let p = sidx * (m + 1);
            let mut w = cons.clone();
            if sidx != exact { for _ in 0..r.gen_range(1..=2) { let j = r.gen_range(0..m); w[j] = second[j]; } }
            ranks[p..p + m].copy_from_slice(&w);
        }
        let thr = if it % 2 == 0 { 0 } else { -40 };
        let inp = Input { ranks, pssm, thr, thr_kind: "low" };
        let bs = [1usize, 2, 3, 5][it % 4];
        history(rec, &inp, Arm::Avx2, bs, Some(0), false, "max_saturated_near_ties");
        if it % 3 == 0 { history(rec, &inp, Arm::Avx2, 256, Some(r.gen_range(0..3)), false, "max_saturated_near_ties"); }
    }
}

/// "Any block size >= 1" on a sequence with more than 65 536 striped rows (over 2.1 million symbols) and block sizes beyond
/// that.  The sequence does not go into the trace (TLC could not hold it): the event carries the naive rescoring.
fn huge_block(rec: &mut Recorder, r: &mut impl Rng, thorough: bool) {
    let l: usize = 2_097_152 + 32 * r.gen_range(1..200) + r.gen_range(0..32);
    let m = r.gen_range(3..=6);
    let pssm = gen_pssm(r, m, 0);
    let mut ranks = random_ranks::<A>(r, l, 0.0);
    // plant the consensus once, anywhere: the unique best hit
    let cons: Vec<usize> = pssm.iter().map(|row| row[..KK - 1].iter().enumerate().max_by_key(|x| *x.1).unwrap().0).collect();
    let p = r.gen_range(0..l - m);
    ranks[p..p + m].copy_from_slice(&cons);
    let scores = window_scores(&pssm, &ranks);
    let best = *scores.iter().max().unwrap();
    let mat = build_pssm::<A>(&pssm);
    let mut seq = build_seq::<A, U32>(&ranks, 0);
    seq.configure(&mat);
    let sizes: Vec<usize> = if thorough { vec![65_536, 65_537, 70_000, 1 << 20] } else { vec![65_537] };
    for (i, &bs) in sizes.iter().enumerate() {
        let thr4 = if i % 2 == 0 { best - 4 } else { best + 1 };
        let want_none = best < thr4;
        force(Some(Arm::Avx2));
        let res = guarded(|| { let mut sc = Scanner::new(&mat, &seq); sc.threshold(ungrid(thr4, GS)).block_size(bs); sc.max().map(|h| (h.position(), h.score())) });
        force(None);
        rec.reset();
        let mut e = json!({"ev":"max_big","arm":"avx2","L":l,"M":m,"bs":bs,"thr":thr4,"want_none":want_none,"want_score":best,"pssm":pssm});
        match res {
            Ok(Some((pos, sc))) => { e["ret"] = json!("hit"); e["pos"] = json!(pos); e["score"] = grid(sc, GS); e["at_pos"] = json!(if pos < scores.len() { scores[pos] } else { NINF }); }
            Ok(None) => { e["ret"] = json!("none"); e["pos"] = json!(-1); e["score"] = json!(NINF); e["at_pos"] = json!(NINF); }
            Err(msg) => { e["ret"] = json!("panic"); e["msg"] = json!(msg); e["pos"] = json!(-1); e["score"] = json!(NINF); e["at_pos"] = json!(NINF); }
        }
        rec.emit(e);
        rec.class("more_than_65536_rows_block_size_beyond");
        rec.nontrivial(&("huge", l, m, bs, thr4));
    }
}

pub fn record_c03(rec: &mut Recorder, seed: u64, thorough: bool) {
    let mut r = rng(seed, 3);
    huge_block(rec, &mut r, thorough);
    many_pending(rec, &mut r, thorough);
    saturated_near_ties(rec, &mut r, thorough);
    wildcard_sites(rec, &mut r, thorough, Some(()));
    exact_fit(rec, &mut r, thorough, Some(()));
    let mut kind = 0;
    for (l, m, bs) in shapes(thorough, &mut r).into_iter().chain(big_shapes(thorough, &mut r)) {
        kind += 1;
        let arm = Arm::all()[kind % 3];
        let inp = gen_input(&mut r, l, m, kind, arm == Arm::Avx2);
        let nqual = window_scores(&inp.pssm, &inp.ranks).iter().filter(|&&s| s >= inp.thr).count();
        let k = match r.gen_range(0..4) { 0 => 0, 1 => nqual + 1, _ => r.gen_range(0..=nqual.min(6)) };
        // the same input and prefix length with two block sizes (and a second arm)
        let bs2 = [1usize, 2, 3, 5, 256][r.gen_range(0..5)];
        history(rec, &inp, arm, bs, Some(k), false, "max");
        if l < 4000 || thorough {
            history(rec, &inp, Arm::all()[(kind + 1) % 3], bs2, Some(k), kind % 3 == 0, "max");
            history(rec, &inp, arm, bs2, Some(0), false, if kind % 2 == 0 { "max_by_ref" } else { "max" });
        }
        if l > 32 && l < 4000 {
            // "one block": the largest block size there is
            history(rec, &inp, arm, usize::MAX, Some(k.min(2)), false, "max");
        }
        if l < 4000 && nqual >= 2 {
            // permissive threshold, some hits consumed (so that others stay buffered), threshold raised, then the best hit
            history(rec, &inp, arm, [bs, 256][kind % 2], Some(1 + kind % 3), false, "max_raised");
        }
    }
}
