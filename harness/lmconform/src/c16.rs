//! C16 - Gibbs sampler: recorder (impl -> spec).
use lightmotif::abc::{Dna, Protein};
use lightmotif::num::*;
use lightmotif::pli::{Pipeline, Stripe};
use lightmotif::sampler::{SamplerBuilder, SamplerData, SamplerMode};
use lightmotif::seq::StripedSequence;
use rand::rngs::StdRng;
use rand::{Rng, SeedableRng};
use serde_json::{json, Value};

use crate::pipe::*;
use crate::util::*;

const Q16: f64 = 65536.0;

fn run_once<A: Abc>(data: &[Vec<usize>], w: usize, zoops: bool, seeds: usize, inertia: Option<usize>, patience: Option<usize>,
                    seed: u64, steps: usize, arm: Option<Arm>) -> Vec<Value>
where
    Pipeline<A, lightmotif::pli::dispatch::Dispatch>: lightmotif::pli::Score<f32, A, U32>,
{
    let mut out = Vec::new();
    force(arm);
    // the sequences reach the sampler in the ways a program may have produced them: striped and configured once; configured
    // twice (for a shorter motif first); or as a PREFIX VIEW of a longer striped sequence (StripedSequence::new over its
    // matrix with a shorter length: the cells past the end then hold real symbols, not the default one)
    let striped: Vec<StripedSequence<A, U32>> = data.iter().enumerate().map(|(i, r)| {
        let how = (i + w + data.len()) % 4;
        let mut s: StripedSequence<A, U32> = if how == 3 && r.len() >= 33 {
            let rows = (r.len() + 31) / 32;
            // a longer sequence with the same number of rows: r followed by other symbols up to the end of the last column
            let mut full = r.clone();
            let mut k = 0usize;
            while full.len() < rows * 32 { full.push((k * 7 + i) % (A::KK - 1)); k += 1; }
            let fs: StripedSequence<A, U32> = Pipeline::<A, _>::generic().stripe(A::syms(&full));
            StripedSequence::new(fs.into_matrix(), r.len()).expect("prefix view")
        } else if how == 2 && i % 2 == 0 && !r.is_empty() {
            // a caller-built matrix TALLER than strictly necessary (StripedSequence::new accepts any matrix holding at
            // least `len` cells): position j lives in row j mod R', column j div R' of that matrix
            let rows = (r.len() + 31) / 32 + 1 + i % 3;
            let mut mx = lightmotif::dense::DenseMatrix::<A::Symbol, U32>::new(rows);
            for (j, &x) in r.iter().enumerate() { mx[j % rows][j / rows] = A::sym(x); }
            StripedSequence::new(mx, r.len()).expect("matrix with spare rows")
        } else {
            Pipeline::<A, _>::generic().stripe(A::syms(r))
        };
        if how == 1 && w >= 2 { s.configure_wrap(1 + i % (w - 1)); }
        s.configure_wrap(w);
        s
    }).collect();
    let head = json!({"ev":"smp_new","abc":A::NAME,"K":A::KK,"data":data,"w":w,"mode": if zoops {"zoops"} else {"oops"},
                      "seeds":seeds,"seed":seed.to_string(),"arm":arm_name(arm)});
    let r = guarded(|| {
        let sd = SamplerData::new(&striped);
        let mut b = SamplerBuilder::new(&sd);
        b.width(w).mode(if zoops { SamplerMode::Zoops } else { SamplerMode::Oops });
        if zoops { b.seeds(seeds); }
        if let Some(i) = inertia { b.inertia(i); }
        if let Some(p) = patience { b.patience(p); }
        let mut smp = b.sample(StdRng::seed_from_u64(seed));
        let obs = |smp: &lightmotif::sampler::Sampler<'_, StdRng, A, &Vec<StripedSequence<A, U32>>, U32>| -> Value {
            let cm = smp.count_matrix();
            let motif: Vec<Vec<u32>> = (0..cm.matrix().rows()).map(|i| cm.matrix()[i].to_vec()).collect();
            let bg: Vec<i64> = smp.background().frequencies().iter().map(|&x| quant(x as f64, Q16)).collect();
            json!({"active": smp.active_sequences(), "starts": smp.active_starts(), "motif": motif, "bg": bg, "n": cm.sequence_count()})
        };
        let mut evs = vec![{ let mut h = head.clone(); h["ret"] = json!("ok"); h["post"] = obs(&smp); h }];
        for _ in 0..steps {
            match guarded(|| smp.next()) {
                Ok(Some(it)) => {
                    let ic: Vec<Vec<u32>> = (0..it.counts.matrix().rows()).map(|i| it.counts.matrix()[i].to_vec()).collect();
                    evs.push(json!({"ev":"smp_step","ret":"ok","z":it.z,"step":it.step,"iter_counts":ic,"post":obs(&smp)}));
                }
                Ok(None) => { evs.push(json!({"ev":"smp_end","ret":"ok"})); break; }
                Err(m) => { evs.push(json!({"ev":"smp_step","ret":"panic","msg":m})); break; }
            }
        }
        evs
    });
    force(None);
    match r {
        Ok(evs) => out.extend(evs),
        Err(m) => { let mut h = head; h["ret"] = json!("panic"); h["msg"] = json!(m); out.push(h); }
    }
    out
}

fn gen_data<A: Abc>(rng: &mut impl Rng, w: usize) -> Vec<Vec<usize>> {
    gen_data_n::<A>(rng, w, 0)
}

/// `many` > 0: that many sequences (data sets beyond 32 and 64 sequences)
fn gen_data_n<A: Abc>(rng: &mut impl Rng, w: usize, many: usize) -> Vec<Vec<usize>> {
    let n = if many > 0 { many } else { rng.gen_range(5..=24) };
    let maxlen = (w + 50).min(90);
    // a planted motif makes zoops inclusions / exclusions both happen
    let motif = random_ranks::<A>(rng, w, 0.0);
    (0..n).map(|_| {
        let l = rng.gen_range(w + 1..=maxlen);
        let mut s = random_ranks::<A>(rng, l, 0.03);
        if rng.gen_bool(0.7) { let p = rng.gen_range(0..=l - w); s[p..p + w].copy_from_slice(&motif); }
        s
    }).collect()
}

/// A data set holding one very long sequence dominated by one symbol (more than 65 535 occurrences of it) next to a
/// few ordinary ones: per-sequence symbol counts beyond 16 bits.
fn long_data(rng: &mut impl Rng, w: usize) -> Vec<Vec<usize>> {
    let heavy = rng.gen_range(0..4);
    let l = rng.gen_range(68_000..72_000);
    let long: Vec<usize> = (0..l).map(|_| if rng.gen_bool(0.96) { heavy } else { rng.gen_range(0..4) }).collect();
    let mut data = vec![long];
    for _ in 0..rng.gen_range(2..4) { let l = rng.gen_range(w + 5..60); data.push(random_ranks::<Dna>(rng, l, 0.02)); }
    if rng.gen_bool(0.5) { data.rotate_left(1); }
    data
}

pub fn record(rec: &mut Recorder, seed: u64, thorough: bool) {
    let mut r = rng(seed, 16);
    for k in 0..(if thorough { 3 } else { 1 }) {
        let w = [5usize, 9, 3][k];
        let data = long_data(&mut r, w);
        let rs: u64 = r.gen();
        let zoops = k == 1;
        let evs = run_once::<Dna>(&data, w, zoops, 2, None, Some(10_000), rs, 10, None);
        rec.reset();
        rec.class("sequence_longer_than_65535");
        for e in evs { rec.emit(e); }
    }
    let runs = if thorough { 60 } else { 16 };
    let steps = if thorough { 1500 } else { 220 };
    // data sets of more than 32 / 64 sequences, zero-or-one mode (membership of each sequence tracked separately)
    for (k, &n) in (if thorough { vec![33usize, 48, 65, 100, 130] } else { vec![48usize, 70] }).iter().enumerate() {
        let w = [4usize, 7][k % 2];
        let data = gen_data_n::<Dna>(&mut r, w, n);
        let rs: u64 = r.gen();
        let evs = run_once::<Dna>(&data, w, true, 2 + k % 3, None, Some(10_000), rs, if thorough { 900 } else { 260 }, None);
        rec.reset();
        rec.class("zoops");
        rec.class("more_than_32_sequences");
        let mut prev = usize::MAX; let mut grew = false;
        for e in evs {
            if let Some(act) = e.get("post").and_then(|p| p.get("active")).and_then(|x| x.as_array()) { if prev != usize::MAX && act.len() != prev { grew = true; } prev = act.len(); }
            rec.emit(e);
        }
        if grew { rec.class("zoops_membership_changed"); }
    }
    for run in 0..runs {
        let w = [1usize, 2, 3, 5, 8, 12, 17, 20][run % 8];
        let zoops = run % 2 == 1;
        let protein = run % 3 == 0;
        let seeds = r.gen_range(2..=4);
        let inertia = if run % 4 == 1 { Some(r.gen_range(0..40)) } else { None };
        let patience = if run % 4 == 3 { Some(r.gen_range(5..400)) } else { Some(10_000) };
        let rs: u64 = r.gen();
        let arm = [None, Some(Arm::Avx2), Some(Arm::Sse2), Some(Arm::Generic)][run % 4];
        let (a, b) = if protein {
            let data = gen_data::<Protein>(&mut r, w);
            (run_once::<Protein>(&data, w, zoops, seeds, inertia, patience, rs, steps, arm),
             run_once::<Protein>(&data, w, zoops, seeds, inertia, patience, rs, steps, arm))
        } else {
            let data = gen_data::<Dna>(&mut r, w);
            (run_once::<Dna>(&data, w, zoops, seeds, inertia, patience, rs, steps, arm),
             run_once::<Dna>(&data, w, zoops, seeds, inertia, patience, rs, steps, arm))
        };
        rec.reset();
        rec.class(if zoops { "zoops" } else { "oops" });
        rec.class(if protein { "protein" } else { "dna" });
        let same = a == b;
        let nsteps = a.len();
        let mut grew = false; let mut prev = usize::MAX;
        for e in a {
            if let Some(act) = e.get("post").and_then(|p| p.get("active")).and_then(|x| x.as_array()) {
                if prev != usize::MAX && act.len() != prev { grew = true; }
                prev = act.len();
            }
            rec.nontrivial(&e.to_string());
            rec.emit(e);
        }
        if grew { rec.class("zoops_membership_changed"); }
        rec.emit(json!({"ev":"smp_det","same":same,"events":nsteps,"ret":"ok"}));
    }
}
