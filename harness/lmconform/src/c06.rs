//! C06 - memory accesses of the vectorised kernels stay inside their buffers: recorder (impl -> spec).
//!
//! The access log of hook H2 is armed around every safe-API call; the regions are the buffers owned by the
//! arguments / results of the call (taken from the objects themselves after the call), and every logged access
//! is attributed to the nearest region.  One event per call with a per-site summary
//! (count, smallest offset, largest end, number of misaligned accesses).
use lightmotif::abc::{Dna, Protein, Symbol};
use lightmotif::dense::DenseMatrix;
use lightmotif::num::*;
use lightmotif::pli::{Encode, Maximum, Pipeline, Score, Stripe};
use lightmotif::scores::StripedScores;
use lightmotif::seq::StripedSequence;
use lightmotif::verif::{arm_access_log, take_access_log, Access};
use rand::Rng;
use serde_json::{json, Value};
use std::collections::BTreeMap;

use crate::c01::{build_pssm, random_pssm};
use crate::pipe::*;
use crate::util::*;

struct Region { name: &'static str, base: usize, size: usize }

fn region_of<T: Copy + Default, C: ArrayLength>(name: &'static str, m: &DenseMatrix<T, C>) -> Region {
    if m.rows() == 0 {
        Region { name, base: 0, size: 0 }
    } else {
        Region { name, base: m[0].as_ptr() as usize, size: m.rows() * m.stride() * std::mem::size_of::<T>() }
    }
}

thread_local! {
    /// instruction sites observed (in direct kernel calls with fully known regions) to read the striped sequence matrix
    static SEQ_SITES: std::cell::RefCell<std::collections::BTreeSet<&'static str>> = const { std::cell::RefCell::new(std::collections::BTreeSet::new()) };
}

/// Summary of a call whose only known region is the striped sequence matrix (Scanner owns its other buffers):
/// accesses made by the sequence-reading sites are measured against that region whatever their distance,
/// the accesses of all other sites are not judged.
fn summarise_seq_only(kernel: &str, params: Value, seq: &Region, log: Vec<Access>) -> Value {
    let mut sites: BTreeMap<&'static str, (usize, i64, i64, usize)> = BTreeMap::new();
    let mut other = 0usize;
    SEQ_SITES.with(|ss| {
        let ss = ss.borrow();
        for a in &log {
            if ss.contains(a.site) {
                let off = a.addr as i64 - seq.base as i64;
                let e = sites.entry(a.site).or_insert((0, i64::MAX, i64::MIN, 0));
                e.0 += 1; e.1 = e.1.min(off); e.2 = e.2.max(off + a.width as i64);
                if a.align > 1 && a.addr % a.align != 0 { e.3 += 1; }
            } else { other += 1; }
        }
    });
    json!({"ev":"mem","kernel":kernel,"params":params,
           "regions": [json!({"name": seq.name, "size": seq.size, "base_mod": seq.base % 32})],
           "sites": sites.iter().map(|(site, (n, lo, hi, mis))| json!({"site": site, "region": 1, "n": n, "min_off": lo, "max_end": hi, "misaligned": mis, "write": false})).collect::<Vec<_>>(),
           "accesses": log.len(), "unattributed": 0, "not_judged": other, "ret": "ok"})
}

fn summarise(kernel: &str, params: Value, regions: &[Region], log: Vec<Access>) -> Value {
    // site -> (region index, count, min_off, max_end, misaligned, write)
    let mut sites: BTreeMap<(&'static str, usize), (usize, i64, i64, usize, bool)> = BTreeMap::new();
    let mut unattributed = 0usize;
    for a in &log {
        // nearest region (distance 0 when inside)
        let mut best: Option<(usize, u64)> = None;
        for (ri, r) in regions.iter().enumerate() {
            if r.size == 0 && r.base == 0 { continue; }
            let d = if a.addr < r.base { (r.base - a.addr) as u64 } else if a.addr + a.width > r.base + r.size { (a.addr + a.width - r.base - r.size) as u64 } else { 0 };
            if best.map_or(true, |(_, bd)| d < bd) { best = Some((ri, d)); }
        }
        match best {
            Some((ri, d)) if d <= 65536 => {
                if d == 0 && regions[ri].name == "seq" { SEQ_SITES.with(|ss| { ss.borrow_mut().insert(a.site); }); }
                let off = a.addr as i64 - regions[ri].base as i64;
                let e = sites.entry((a.site, ri)).or_insert((0, i64::MAX, i64::MIN, 0, a.write));
                e.0 += 1;
                e.1 = e.1.min(off);
                e.2 = e.2.max(off + a.width as i64);
                if a.align > 1 && a.addr % a.align != 0 { e.3 += 1; }
            }
            _ => unattributed += 1,
        }
    }
    json!({"ev":"mem","kernel":kernel,"params":params,
           "regions": regions.iter().map(|r| json!({"name": r.name, "size": r.size, "base_mod": r.base % 32})).collect::<Vec<_>>(),
           "sites": sites.iter().map(|((site, ri), (n, lo, hi, mis, wr))| json!({"site": site, "region": ri + 1, "n": n, "min_off": lo, "max_end": hi, "misaligned": mis, "write": wr})).collect::<Vec<_>>(),
           "accesses": log.len(), "unattributed": unattributed, "ret": "ok"})
}

fn logged<R>(f: impl FnOnce() -> R) -> (Result<R, String>, Vec<Access>) {
    arm_access_log(true);
    let r = guarded(f);
    let log = take_access_log();
    arm_access_log(false);
    (r, log)
}

fn emit(rec: &mut Recorder, class: &str, e: Value) {
    rec.reset();
    rec.class(class);
    rec.nontrivial(&(e["kernel"].to_string(), e["params"].to_string()));
    rec.emit(e);
}

fn panic_event(kernel: &str, params: Value, msg: String) -> Value {
    json!({"ev":"mem","kernel":kernel,"params":params,"regions":[],"sites":[],"accesses":0,"unattributed":0,"ret":"panic","msg":msg})
}

fn encode_case<A: Abc, P: Encode<A>>(rec: &mut Recorder, pli: &P, be: &str, rng: &mut impl Rng, l: usize) {
    let bytes: Vec<u8> = random_ranks::<A>(rng, l, 0.05).iter().map(|&r| A::sym(r).as_ascii()).collect();
    let mut dst = vec![A::default_symbol(); l];
    let (r, log) = logged(|| pli.encode_into(&bytes, &mut dst).is_ok());
    let kernel = format!("encode_{}", be);
    let params = json!({"l": l, "abc": A::NAME});
    match r {
        Ok(_) => {
            let regions = [Region { name: "src", base: bytes.as_ptr() as usize, size: l }, Region { name: "dst", base: dst.as_ptr() as usize, size: l }];
            emit(rec, "encode", summarise(&kernel, params, &regions, log));
        }
        Err(m) => emit(rec, "panic", panic_event(&kernel, params, m)),
    }
}

fn encode_short_dst_case<A: Abc, P: Encode<A>>(rec: &mut Recorder, pli: &P, be: &str, rng: &mut impl Rng, l: usize) {
    if l < 2 { return; }
    let bytes: Vec<u8> = random_ranks::<A>(rng, l, 0.0).iter().map(|&r| A::sym(r).as_ascii()).collect();
    let keep = l - 1 - rng.gen_range(0..l.min(70) - 1);
    // the destination is the head of a larger buffer: whatever is written past it lands in memory the call does not own
    let mut big = vec![A::default_symbol(); l + 64];
    let (r, log) = logged(|| pli.encode_into(&bytes, &mut big[..keep]).is_ok());
    let kernel = format!("encode_short_dst_{}", be);
    let params = json!({"l": l, "dst": keep, "abc": A::NAME});
    let regions = [Region { name: "src", base: bytes.as_ptr() as usize, size: l }, Region { name: "dst", base: big.as_ptr() as usize, size: keep }];
    let touched = big[keep..].iter().any(|s| *s != A::default_symbol());
    match r {
        Err(msg) if log.is_empty() && !touched => { let mut e = panic_event(&kernel, params, msg); e["ret"] = json!("refused"); emit(rec, "encode_short_dst_refused", e); }
        Err(_) | Ok(_) => {
            // it answered, or it panicked only after touching memory: every access is judged against the two slices
            let mut e = summarise(&kernel, params, &regions, log);
            if touched { e["ret"] = json!("wrote_past_the_destination_slice"); }
            emit(rec, "encode_short_dst_answered", e);
        }
    }
}

/// DenseMatrix::from_rows with a row WIDER than the table: the documented panic is what keeps the copy inside the row
fn from_rows_wide_case(rec: &mut Recorder, rng: &mut impl Rng) {
    let nrows = rng.gen_range(1..4usize);
    let wide_at = rng.gen_range(0..nrows);
    let extra = [1usize, 5, 32, 37, 64][rng.gen_range(0..5)];
    let rows: Vec<Vec<u32>> = (0..nrows).map(|i| vec![7u32; if i == wide_at { 32 + extra } else { 32 }]).collect();
    let r = guarded(|| DenseMatrix::<u32, U32>::from_rows(rows.iter().map(|r| r.as_slice())).rows());
    let params = json!({"rows": nrows, "wide_row": wide_at, "extra": extra});
    let mut e = panic_event("from_rows_wide", params, match &r { Ok(_) => String::new(), Err(m) => m.clone() });
    e["ret"] = json!(if r.is_err() { "refused" } else { "accepted_a_row_wider_than_the_table" });
    emit(rec, "from_rows_wide", e);
}

fn stripe_case<A: Abc, P: Stripe<A, U32>>(rec: &mut Recorder, pli: &P, be: &str, rng: &mut impl Rng, l: usize, reuse: &mut StripedSequence<A, U32>) {
    let ranks = random_ranks::<A>(rng, l, 0.05);
    // an exactly-sized heap buffer, so that the slice is the whole allocation
    let syms: Box<[A::Symbol]> = A::syms(&ranks).into_boxed_slice();
    let fresh = rng.gen_bool(0.5);
    let mut out: Option<StripedSequence<A, U32>> = None;
    let (r, log) = logged(|| {
        if fresh { out = Some(pli.stripe(&syms)); } else { pli.stripe_into(&syms, reuse); }
    });
    let kernel = format!("stripe_{}", be);
    let params = json!({"L": l, "abc": A::NAME, "fresh": fresh});
    match r {
        Ok(()) => {
            let m = if fresh { out.as_ref().unwrap().matrix() } else { reuse.matrix() };
            let regions = [Region { name: "src", base: syms.as_ptr() as usize, size: l }, region_of("out", m)];
            emit(rec, if l >= 993 && l % 32 != 0 { "stripe_tiles_partial_last_column" } else { "stripe" }, summarise(&kernel, params, &regions, log));
        }
        Err(m) => emit(rec, "panic", panic_event(&kernel, params, m)),
    }
}

fn score_case<A: Abc, C: PositiveLength, P: Score<f32, A, C> + Maximum<f32, C>>(rec: &mut Recorder, pli: &P, be: &str, rng: &mut impl Rng, l: usize, m: usize, scores: &mut StripedScores<f32, C>) {
    let ranks = random_ranks::<A>(rng, l, 0.05);
    let cells = random_pssm::<A>(rng, m, 0.05, true, 20);
    let pssm = build_pssm::<A>(&cells);
    let mut seq: StripedSequence<A, C> = Pipeline::<A, _>::generic().stripe(A::syms(&ranks));
    seq.configure(&pssm);
    let r_rows = (l + C::USIZE - 1) / C::USIZE;
    let (a, b) = if rng.gen_bool(0.4) && r_rows > 0 { let a = rng.gen_range(0..r_rows); (a, rng.gen_range(a..=r_rows)) } else { (0, r_rows) };
    let (r, log) = logged(|| pli.score_rows_into(&pssm, &seq, a..b, scores));
    let kernel = format!("score_f32_{}", be);
    let params = json!({"L": l, "M": m, "C": C::USIZE, "abc": A::NAME, "a": a, "b": b});
    match r {
        Ok(()) => {
            let regions = [region_of("seq", seq.matrix()), region_of("pssm", pssm.matrix()), region_of("scores", scores.matrix())];
            emit(rec, "score_f32", summarise(&kernel, params, &regions, log));
        }
        Err(msg) => { emit(rec, "panic", panic_event(&kernel, params, msg)); return; }
    }
    // reductions over the scores just computed
    let (r, log) = logged(|| (pli.argmax(scores), pli.max(scores)));
    let kernel = format!("reduce_f32_{}", be);
    let params = json!({"rows": scores.matrix().rows(), "C": C::USIZE});
    match r {
        Ok(_) => emit(rec, "reduce_f32", summarise(&kernel, params, &[region_of("scores", scores.matrix())], log)),
        Err(msg) => emit(rec, "panic", panic_event(&kernel, params, msg)),
    }
}

/// A sequence that holds FEWER look-ahead rows than the motif needs (configured for a shorter motif, then cloned - no
/// spare capacity - or not): the vector kernels must refuse the call (their documented panic) or, if they answer, stay
/// inside the sequence matrix.
fn under_configured_case<A: Abc, P: Score<f32, A, U32>>(rec: &mut Recorder, pli: &P, be: &str, rng: &mut impl Rng, l: usize, m: usize) {
    let ranks = random_ranks::<A>(rng, l, 0.02);
    let cells = random_pssm::<A>(rng, m, 0.0, true, 20);
    let pssm = build_pssm::<A>(&cells);
    let mut seq: StripedSequence<A, U32> = Pipeline::<A, _>::generic().stripe(A::syms(&ranks));
    let short = rng.gen_range(0..m - 1);
    seq.configure_wrap(short);
    let seq = if rng.gen_bool(0.5) { seq.clone() } else { seq };
    let mut scores = StripedScores::<f32, U32>::empty();
    let (r, log) = logged(|| pli.score_into(&pssm, &seq, &mut scores));
    let kernel = format!("score_f32_{}", be);
    let params = json!({"L": l, "M": m, "C": 32, "abc": A::NAME, "a": 0, "b": (l + 31) / 32, "wrap": short});
    match r {
        Ok(()) => {
            let regions = [region_of("seq", seq.matrix()), region_of("pssm", pssm.matrix()), region_of("scores", scores.matrix())];
            emit(rec, "score_f32_under_configured_answered", summarise(&kernel, params, &regions, log));
        }
        Err(msg) => {
            // a refusal is fine; what it must not do is touch memory outside the matrix first (nothing is logged before the check)
            let mut e = panic_event(&kernel, params, msg);
            e["ret"] = json!("refused");
            emit(rec, "score_f32_under_configured_refused", e);
        }
    }
}

fn score_u8_case<P: Score<u8, Dna, U32> + Maximum<u8, U32>>(rec: &mut Recorder, pli: &P, be: &str, rng: &mut impl Rng, l: usize, m: usize) {
    let ranks = random_ranks::<Dna>(rng, l, 0.05);
    let cells = random_pssm::<Dna>(rng, m, 0.0, true, 3);
    let pssm = build_pssm::<Dna>(&cells);
    let dm = pssm.to_discrete();
    let mut seq: StripedSequence<Dna, U32> = Pipeline::<Dna, _>::generic().stripe(Dna::syms(&ranks));
    seq.configure(&pssm);
    let mut scores = StripedScores::<u8, U32>::empty();
    let rr = (l + 31) / 32;
    // full scans and row sub-ranges that do not start at row 0 (the way Scanner walks over blocks)
    let (a, b) = if rng.gen_bool(0.5) && rr > 1 { let a = rng.gen_range(1..rr); (a, rng.gen_range(a..=rr)) } else { (0, rr) };
    let (r, log) = logged(|| { pli.score_rows_into(&dm, &seq, a..b, &mut scores); (pli.argmax(&scores), pli.max(&scores)) });
    let kernel = format!("score_u8_{}", be);
    let params = json!({"L": l, "M": m, "a": a, "b": b});
    match r {
        Ok(_) => emit(rec, "score_u8", summarise(&kernel, params, &[region_of("seq", seq.matrix()), region_of("pssm8", dm.matrix()), region_of("scores8", scores.matrix())], log)),
        Err(msg) => emit(rec, "panic", panic_event(&kernel, params, msg)),
    }
}

/// Scanner::next to exhaustion or Scanner::max on the AVX2 arm: the sequence-reading sites must stay inside the
/// striped sequence matrix (sequence rows + look-ahead rows), for every block.
fn scanner_case(rec: &mut Recorder, rng: &mut impl Rng, l: usize, m: usize, bs: usize, use_max: bool) {
    use lightmotif::scan::Scanner;
    let ranks = random_ranks::<Dna>(rng, l, 0.02);
    let cells = random_pssm::<Dna>(rng, m, 0.0, true, 3);
    let pssm = build_pssm::<Dna>(&cells);
    let mut seq: StripedSequence<Dna, U32> = Pipeline::<Dna, _>::generic().stripe(Dna::syms(&ranks));
    seq.configure(&pssm);
    force(Some(Arm::Avx2));
    let thr = if rng.gen_bool(0.5) { -100.0 } else { 0.0 };
    let (r, log) = logged(|| {
        let mut sc = Scanner::new(&pssm, &seq);
        sc.threshold(thr).block_size(bs);
        if use_max { sc.max().map(|h| h.position()).unwrap_or(0) } else { sc.count() }
    });
    force(None);
    let kernel = if use_max { "scanner_max_avx2" } else { "scanner_next_avx2" };
    let params = json!({"L": l, "M": m, "bs": bs});
    match r {
        Ok(_) => emit(rec, "scanner", summarise_seq_only(kernel, params, &region_of("seq", seq.matrix()), log)),
        Err(msg) => emit(rec, "panic", panic_event(kernel, params, msg)),
    }
}

pub fn record(rec: &mut Recorder, seed: u64, thorough: bool) {
    let mut r = rng(seed, 6);
    force(None);
    // ---- encode: every length around the vector widths
    let enc_lens: Vec<usize> = if thorough { (0..=200).collect() } else { (0..=70).chain([95, 96, 97, 127, 128, 129]).collect() };
    for &l in &enc_lens {
        encode_case::<Dna, _>(rec, &Pipeline::<Dna, _>::avx2().unwrap(), "avx2", &mut r, l);
        encode_case::<Dna, _>(rec, &Pipeline::<Dna, _>::sse2().unwrap(), "sse2", &mut r, l);
        encode_case::<Protein, _>(rec, &Pipeline::<Protein, _>::avx2().unwrap(), "avx2", &mut r, l);
        encode_case::<Protein, _>(rec, &Pipeline::<Protein, _>::sse2().unwrap(), "sse2", &mut r, l);
        encode_case::<Dna, _>(rec, &Pipeline::<Dna, _>::dispatch(), "dispatch", &mut r, l);
        encode_short_dst_case::<Dna, _>(rec, &Pipeline::<Dna, _>::avx2().unwrap(), "avx2", &mut r, l);
        encode_short_dst_case::<Protein, _>(rec, &Pipeline::<Protein, _>::sse2().unwrap(), "sse2", &mut r, l);
        encode_short_dst_case::<Dna, _>(rec, &Pipeline::<Dna, _>::dispatch(), "dispatch", &mut r, l);
        encode_short_dst_case::<Dna, _>(rec, &Pipeline::<Dna, _>::generic(), "generic", &mut r, l);
        from_rows_wide_case(rec, &mut r);
    }
    // ---- stripe: lengths below / at / above the first 32x32 tile, every residue mod 32
    let mut st_lens: Vec<usize> = (0..=40).chain(960..=1100).collect();
    st_lens.extend([2016, 2047, 2048, 2049, 2079, 2080, 3000, 4095, 4097]);
    if thorough { st_lens.extend(1100..=2200); st_lens.extend([8191, 8192, 8193, 16385]); }
    let mut reuse_d: StripedSequence<Dna, U32> = Default::default();
    let mut reuse_p: StripedSequence<Protein, U32> = Default::default();
    for &l in &st_lens {
        stripe_case::<Dna, _>(rec, &Pipeline::<Dna, _>::avx2().unwrap(), "avx2", &mut r, l, &mut reuse_d);
        if l % 3 == 0 { stripe_case::<Protein, _>(rec, &Pipeline::<Protein, _>::avx2().unwrap(), "avx2", &mut r, l, &mut reuse_p); }
        if l % 5 == 0 { stripe_case::<Dna, _>(rec, &Pipeline::<Dna, _>::dispatch(), "dispatch", &mut r, l, &mut reuse_d); }
    }
    // ---- scoring (f32 permute / gather, SSE2, u8 shuffle) and reductions
    let mut sc_d = StripedScores::<f32, U32>::empty();
    let mut sc_p = StripedScores::<f32, U32>::empty();
    let mut sc_s16 = StripedScores::<f32, U16>::empty();
    let mut sc_s32 = StripedScores::<f32, U32>::empty();
    let n = if thorough { 400 } else { 120 };
    for it in 0..n {
        let l = if it % 4 == 0 { r.gen_range(0..40) } else { r.gen_range(0..700) };
        let m = if it % 6 == 0 { r.gen_range(20..=40) } else { r.gen_range(1..=12) };
        score_case::<Dna, U32, _>(rec, &Pipeline::<Dna, _>::avx2().unwrap(), "avx2", &mut r, l, m, &mut sc_d);
        score_case::<Protein, U32, _>(rec, &Pipeline::<Protein, _>::avx2().unwrap(), "avx2", &mut r, l, m, &mut sc_p);
        score_case::<Dna, U16, _>(rec, &Pipeline::<Dna, _>::sse2().unwrap(), "sse2", &mut r, l, m, &mut sc_s16);
        score_case::<Protein, U32, _>(rec, &Pipeline::<Protein, _>::sse2().unwrap(), "sse2", &mut r, l, m, &mut sc_s32);
        score_u8_case(rec, &Pipeline::<Dna, _>::avx2().unwrap(), "avx2", &mut r, l, m.min(12));
        if it % 3 == 0 { score_case::<Dna, U32, _>(rec, &Pipeline::<Dna, _>::dispatch(), "dispatch", &mut r, l, m, &mut sc_d); }
        if it % 4 == 1 && m >= 3 {
            let l2 = r.gen_range(1..200);
            under_configured_case::<Dna, _>(rec, &Pipeline::<Dna, _>::avx2().unwrap(), "avx2", &mut r, l2, m);
            under_configured_case::<Protein, _>(rec, &Pipeline::<Protein, _>::avx2().unwrap(), "avx2", &mut r, l2, m);
            under_configured_case::<Dna, _>(rec, &Pipeline::<Dna, _>::sse2().unwrap(), "sse2", &mut r, l2, m);
        }
    }
    // ---- the scanner (its 8-bit block loop) on the AVX2 arm, after the direct calls above have identified the
    //      instruction sites that read the sequence matrix
    for it in 0..(if thorough { 200 } else { 60 }) {
        let l = if it % 5 == 0 { r.gen_range(8000..8400) } else { r.gen_range(1..900) };
        let m = if it % 4 == 0 { r.gen_range(18..=30) } else { r.gen_range(2..=12) };
        let bs = [1usize, 2, 3, 7, 256][it % 5];
        scanner_case(rec, &mut r, l, m, bs, it % 2 == 0);
    }
}
