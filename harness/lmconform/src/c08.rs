//! C08 - 8-bit discretised scores never under-estimate: recorder (impl -> spec).
use lightmotif::abc::{Dna, Protein};
use lightmotif::num::*;
use lightmotif::pli::{Pipeline, Score};
use lightmotif::pwm::DiscreteMatrix;
use lightmotif::scan::Scanner;
use lightmotif::scores::StripedScores;
use rand::Rng;
use serde_json::{json, Value};

use crate::c01::{build_pssm, build_seq, GS};
use crate::pipe::*;
use crate::util::*;

/// Steep / flat / random grid matrices (non-wildcard entries finite, as C08 requires).
fn gen_pssm<A: Abc>(rng: &mut impl Rng, m: usize, kind: usize) -> Vec<Vec<i64>> {
    (0..m)
        .map(|_| {
            let mut row: Vec<i64> = (0..A::KK - 1)
                .map(|_| match kind % 4 {
                    0 => rng.gen_range(-20..=20),
                    1 => rng.gen_range(-3..=3),                       // small range: large 8-bit steps
                    2 => if rng.gen_bool(0.25) { rng.gen_range(10..=30) } else { rng.gen_range(-40..=-10) }, // steep
                    _ => 5,                                           // constant rows (factor may be 0)
                })
                .collect();
            // wildcard column: -inf (what the library produces), or occasionally a finite value
            row.push(if rng.gen_bool(0.85) { NINF } else { rng.gen_range(-45..=35) });
            if kind % 4 != 3 && kind % 5 == 2 && rng.gen_bool(0.4) {
                // a spacer position of a bipartite motif: flat over the regular symbols, "unknown base" scoring a little more
                let v = row[0].min(0);
                for x in row.iter_mut() { *x = v; }
                let k = row.len();
                row[k - 1] = v + rng.gen_range(1..=8);
            }
            row
        })
        .collect()
}

fn consensus(pssm: &[Vec<i64>], k: usize, best: bool) -> Vec<usize> {
    pssm.iter()
        .map(|row| {
            let it = row[..k - 1].iter().enumerate();
            if best { it.max_by_key(|x| *x.1).unwrap().0 } else { it.min_by_key(|x| *x.1).unwrap().0 }
        })
        .collect()
}

fn gen_seq<A: Abc>(rng: &mut impl Rng, l: usize, pssm: &[Vec<i64>]) -> Vec<usize> {
    // matrices with a spacer row whose wildcard scores higher are scanned over texts rich in wildcards
    let k = A::KK;
    let spacer = pssm.iter().any(|r| r[..k - 1].iter().all(|&x| x == r[0]) && r[k - 1] != NINF && r[k - 1] > r[0]);
    let pw = if spacer { 0.25 } else if rng.gen_bool(0.3) { 0.1 } else { 0.0 };
    let mut s = random_ranks::<A>(rng, l, pw);
    let m = pssm.len();
    // plant the consensus (maximum scoring) and anti-consensus words
    if l >= m {
        let p = rng.gen_range(0..=l - m);
        s[p..p + m].copy_from_slice(&consensus(pssm, A::KK, true));
        if l >= 2 * m && rng.gen_bool(0.7) {
            let q = rng.gen_range(0..=l - m);
            s[q..q + m].copy_from_slice(&consensus(pssm, A::KK, false));
        }
        if rng.gen_bool(0.5) {
            // near-consensus: one mismatch
            let q = rng.gen_range(0..=l - m);
            let mut w = consensus(pssm, A::KK, true);
            let j = rng.gen_range(0..m);
            w[j] = rng.gen_range(0..A::KK - 1);
            s[q..q + m].copy_from_slice(&w);
        }
    }
    s
}

fn run<A: Abc, C: PositiveLength, P: Score<u8, A, C>>(
    rec: &mut Recorder, pli: &P, be: &str, arm: Option<Arm>, pssm_cells: &[Vec<i64>], ranks: &[usize], prof: &str, with_pos: bool,
) {
    let m = pssm_cells.len();
    let l = ranks.len();
    let pssm = build_pssm::<A>(pssm_cells);
    let seq = build_seq::<A, C>(ranks, m - 1);
    let dm: DiscreteMatrix<A> = pssm.to_discrete();
    let d8: Vec<Vec<u8>> = (0..m).map(|i| dm.matrix()[i].to_vec()).collect();
    let n = if l >= m { l - m + 1 } else { 0 };
    // the real score of every position and its 8-bit image under the matrix's own mapping
    let real: Vec<f32> = (0..n).map(|i| pssm.score_position(&seq, i)).collect();
    let sc: Vec<u8> = real.iter().map(|&x| dm.scale(x)).collect();
    // thresholds: min, max, a few attainable scores, and their byte images
    let mut thr: Vec<Value> = Vec::new();
    let mut ts: Vec<f32> = vec![pssm.min_score(), pssm.max_score()];
    for &x in real.iter().filter(|x| x.is_finite()).take(6) { ts.push(x); }
    for t in ts {
        if t.is_finite() { thr.push(json!([grid(t, GS), dm.scale(t)])); }
    }
    let r = guarded(|| {
        let mut out = StripedScores::<u8, C>::empty();
        pli.score_into(&dm, &seq, &mut out);
        let rows: Vec<Vec<u8>> = (0..out.matrix().rows()).map(|i| out.matrix()[i].to_vec()).collect();
        rows
    });
    let base = json!({"be":be,"arm":arm_name(arm),"abc":A::NAME,"C":C::USIZE,"K":A::KK,"prof":prof,
        "seq":ranks,"pssm":pssm_cells,"pssm8":d8,
        "real":real.iter().map(|&x| grid(x, GS)).collect::<Vec<_>>(),"sc":sc,"thr":thr});
    let mut o = base.clone();
    let mm = o.as_object_mut().unwrap();
    mm.insert("ev".into(), json!("dscore"));
    match r {
        Ok(rows) => { mm.insert("ret".into(), json!("ok")); mm.insert("cells".into(), json!(rows)); }
        Err(msg) => { rec.class("kernel_panic"); mm.insert("ret".into(), json!("panic")); mm.insert("msg".into(), json!(msg)); mm.insert("cells".into(), json!([])); }
    }
    rec.reset();
    rec.emit(o);
    if with_pos {
        let pos = guarded(|| (0..n).map(|i| dm.score_position(&seq, i)).collect::<Vec<u8>>());
        let mut o = base;
        let mm = o.as_object_mut().unwrap();
        mm.insert("ev".into(), json!("dpos"));
        mm.insert("be".into(), json!("score_position"));
        match pos {
            Ok(v) => { mm.insert("ret".into(), json!("ok")); mm.insert("pos".into(), json!(v)); }
            Err(msg) => { rec.class("score_position_panic"); mm.insert("ret".into(), json!("panic")); mm.insert("msg".into(), json!(msg)); mm.insert("pos".into(), json!([])); }
        }
        rec.reset();
        rec.emit(o);
    }
    let cons_sum: u32 = consensus(pssm_cells, A::KK, true).iter().enumerate().map(|(j, &k)| dm.matrix()[j][k] as u32).sum();
    if cons_sum > 255 { rec.class("rounded_up_consensus_exceeds_255"); }
    if ranks.iter().any(|&x| x == A::KK - 1) { rec.class("wildcard_in_sequence"); }
    rec.nontrivial(&(be, arm_name(arm), A::NAME, C::USIZE, pssm_cells.to_vec(), ranks.to_vec()));
}

/// "... so the 8-bit pre-filter can produce false candidates but never lose a hit": the real pre-filter user (Scanner,
/// AVX2 arm / runtime detection) run to exhaustion; the spec re-derives every real score and demands that each position
/// meeting the threshold was reported.
fn scan_run(rec: &mut Recorder, arm: Option<Arm>, pssm_cells: &[Vec<i64>], ranks: &[usize], prof: &str, bs: usize, tsel: usize) {
    type A = Dna;
    let m = pssm_cells.len();
    let l = ranks.len();
    if l < m { return; }
    let pssm = build_pssm::<A>(pssm_cells);
    let mut seq = build_seq::<A, U32>(ranks, 0);
    // one striped sequence is usually scanned with several motifs: every other one was configured for a LONGER motif
    // before, every third one for a shorter one
    if tsel % 2 == 0 { seq.configure_wrap(m + 2 + tsel % 5); } else if tsel % 3 == 0 && m >= 3 { seq.configure_wrap(m - 2); }
    seq.configure(&pssm);
    let n = l - m + 1;
    let mut real: Vec<f32> = (0..n).map(|i| pssm.score_position(&seq, i)).filter(|x| x.is_finite()).collect();
    real.sort_by(|a, b| b.partial_cmp(a).unwrap());
    real.dedup();
    if real.is_empty() { return; }
    // thresholds: attainable scores (ties with the threshold are where a strict comparison loses hits)
    let t = real[(tsel * 3) % real.len().min(1 + tsel * 2)];
    force(arm);
    let r = guarded(|| {
        let mut sc = Scanner::new(&pssm, &seq);
        sc.threshold(t).block_size(bs);
        let mut hits: Vec<usize> = Vec::new();
        for _ in 0..(l + 2) {
            match sc.next() { Some(h) => hits.push(h.position()), None => break }
        }
        hits.sort();
        hits
    });
    force(None);
    let mut o = json!({"ev":"dscan","be":"scanner","arm":arm_name(arm),"abc":A::NAME,"C":32,"K":A::KK,"prof":prof,
        "seq":ranks,"pssm":pssm_cells,"thr":grid(t, GS),"bs":bs});
    match r {
        Ok(h) => { o["ret"] = json!("ok"); o["hits"] = json!(h); }
        Err(msg) => { rec.class("scanner_panic"); o["ret"] = json!("panic"); o["msg"] = json!(msg); o["hits"] = json!([]); }
    }
    rec.reset();
    rec.emit(o);
    rec.class("scanner_prefilter");
    rec.nontrivial(&("scanner", arm_name(arm), pssm_cells.to_vec(), ranks.to_vec(), bs, grid(t, GS)));
}

/// The threshold of a live scanner is lowered after the first hit: the byte threshold of the pre-filter must follow it.
/// Logged: both thresholds, the block size, the first hit (returned under the high threshold) and every hit reported after
/// the change.  Blocks after the one that produced the first hit had not been scanned when the threshold changed, so no
/// position of theirs that meets the LOW threshold may be lost.
fn scan_rethreshold(rec: &mut Recorder, arm: Option<Arm>, pssm_cells: &[Vec<i64>], ranks: &[usize], prof: &str, bs: usize, sel: usize) {
    type A = Dna;
    let m = pssm_cells.len();
    let l = ranks.len();
    if l < m { return; }
    let pssm = build_pssm::<A>(pssm_cells);
    let mut seq = build_seq::<A, U32>(ranks, 0);
    seq.configure(&pssm);
    let n = l - m + 1;
    let mut real: Vec<f32> = (0..n).map(|i| pssm.score_position(&seq, i)).filter(|x| x.is_finite()).collect();
    real.sort_by(|a, b| b.partial_cmp(a).unwrap());
    real.dedup();
    if real.len() < 3 { return; }
    let hi = real[(sel % 3).min(real.len() - 2)];
    let lo = real[(real.len() / 2 + sel) % real.len()].min(hi);
    force(arm);
    let r = guarded(|| {
        let mut sc = Scanner::new(&pssm, &seq);
        sc.threshold(hi).block_size(bs);
        let first = sc.next().map(|h| h.position());
        sc.threshold(lo);
        let mut hits: Vec<usize> = Vec::new();
        for _ in 0..(l + 2) { match sc.next() { Some(h) => hits.push(h.position()), None => break } }
        hits.sort();
        (first, hits)
    });
    force(None);
    let mut o = json!({"ev":"dscan2","be":"scanner","arm":arm_name(arm),"abc":A::NAME,"C":32,"K":A::KK,"prof":prof,
        "seq":ranks,"pssm":pssm_cells,"hi":grid(hi, GS),"lo":grid(lo, GS),"bs":bs});
    match r {
        Ok((first, h)) => { o["ret"] = json!("ok"); o["first"] = match first { Some(p) => json!([p]), None => json!([]) }; o["hits"] = json!(h); }
        Err(msg) => { rec.class("scanner_panic"); o["ret"] = json!("panic"); o["msg"] = json!(msg); o["first"] = json!([]); o["hits"] = json!([]); }
    }
    rec.reset();
    rec.emit(o);
    rec.class("scanner_threshold_lowered_mid_scan");
    rec.nontrivial(&("rethreshold", arm_name(arm), pssm_cells.to_vec(), ranks.to_vec(), bs, grid(hi, GS), grid(lo, GS)));
}

/// One row spans almost the whole score range and the sequence avoids its worst symbol: every lane of a vector is in
/// the upper half of the byte range after that row while the remaining rows still contribute.
fn dominant<A: Abc>(rng: &mut impl Rng, m: usize, l: usize) -> (Vec<Vec<i64>>, Vec<usize>) {
    let k = A::KK - 1;
    let worst = rng.gen_range(0..k);
    let dom = if rng.gen_bool(0.7) { 0 } else { rng.gen_range(0..m.min(2)) };
    let cells: Vec<Vec<i64>> = (0..m).map(|i| {
        let mut row: Vec<i64> = (0..k).map(|j| if i == dom { if j == worst { -160 } else { rng.gen_range(18..=20) } } else { rng.gen_range(-3..=3) }).collect();
        row.push(NINF);
        row
    }).collect();
    let mut s = random_ranks::<A>(rng, l, 0.0);
    for x in s.iter_mut() { if *x == worst { *x = (worst + 1) % k; } }
    (cells, s)
}

pub fn record(rec: &mut Recorder, seed: u64, thorough: bool) {
    let prof = std::env::var("LMCONFORM_PROFILE").unwrap_or_else(|_| "dev".into());
    let mut r = rng(seed, 8);
    let widths: Vec<usize> = if thorough { (1..=40).collect() } else { vec![1, 2, 3, 4, 5, 6, 8, 10, 12, 15, 20, 27, 33, 40] };
    let mut kind = 0;
    for &m in &widths {
        for _ in 0..(if thorough { 6 } else { 3 }) {
            kind += 1;
            let cells = gen_pssm::<Dna>(&mut r, m, kind);
            let l = match kind % 3 { 0 => m, 1 => m + r.gen_range(1..40), _ => r.gen_range(m..m + 120) };
            let ranks = gen_seq::<Dna>(&mut r, l, &cells);
            force(None);
            run::<Dna, U32, _>(rec, &Pipeline::<Dna, _>::avx2().unwrap(), "avx2", None, &cells, &ranks, &prof, true);
            run::<Dna, U32, _>(rec, &Pipeline::<Dna, _>::generic(), "generic", None, &cells, &ranks, &prof, false);
            run::<Dna, U4, _>(rec, &Pipeline::<Dna, _>::generic(), "generic", None, &cells, &ranks, &prof, false);
            run::<Dna, U32, _>(rec, &Pipeline::<Dna, _>::sse2().unwrap(), "sse2", None, &cells, &ranks, &prof, false);
            for arm in Arm::all() {
                force(Some(arm));
                run::<Dna, U32, _>(rec, &Pipeline::<Dna, _>::dispatch(), "dispatch", Some(arm), &cells, &ranks, &prof, false);
            }
            force(None);
            scan_run(rec, Some(Arm::Avx2), &cells, &ranks, &prof, [1usize, 2, 3, 256][kind % 4], kind);
            if kind % 2 == 0 { scan_run(rec, None, &cells, &ranks, &prof, [256usize, 1, 2][kind % 3], kind / 2); }
            {
                // the consensus word planted in the sequence and the threshold set to the matrix's own maximum score
                // (the largest byte image, 255, must still pass the byte pre-filter although unscale(255) may round below it)
                let mut planted = ranks.clone();
                if planted.len() >= m {
                    let at = (kind * 7) % (planted.len() - m + 1);
                    for j in 0..m {
                        let row = &cells[j];
                        let best = (0..4).max_by_key(|&k| row[k]).unwrap();
                        planted[at + j] = best;
                    }
                    scan_run(rec, if kind % 2 == 0 { Some(Arm::Avx2) } else { None }, &cells, &planted, &prof, [256usize, 1, 3][kind % 3], 0);
                    rec.class("threshold_at_matrix_maximum");
                }
            }
            if l >= 40 { scan_rethreshold(rec, Some(Arm::Avx2), &cells, &ranks, &prof, [1usize, 2, 1, 3][kind % 4], kind); }
            if m >= 2 && m <= 20 {
                let l = 32 * r.gen_range(2..=5usize) + [0usize, 0, 3, 17][kind % 4];
                let (cells, ranks) = dominant::<Dna>(&mut r, m, l);
                run::<Dna, U32, _>(rec, &Pipeline::<Dna, _>::avx2().unwrap(), "avx2", None, &cells, &ranks, &prof, false);
                force(Some(Arm::Avx2));
                run::<Dna, U32, _>(rec, &Pipeline::<Dna, _>::dispatch(), "dispatch", Some(Arm::Avx2), &cells, &ranks, &prof, false);
                force(None);
                run::<Dna, U32, _>(rec, &Pipeline::<Dna, _>::sse2().unwrap(), "sse2", None, &cells, &ranks, &prof, false);
                run::<Dna, U32, _>(rec, &Pipeline::<Dna, _>::generic(), "generic", None, &cells, &ranks, &prof, false);
                rec.class("dominant_row_matrix");
            }
            if m <= 12 {
                let cells = gen_pssm::<Protein>(&mut r, m, kind);
                let ranks = gen_seq::<Protein>(&mut r, l, &cells);
                run::<Protein, U16, _>(rec, &Pipeline::<Protein, _>::generic(), "generic", None, &cells, &ranks, &prof, true);
            }
        }
    }
}
