//! lmconform - conformance harness binding the TLA+ specification in /verif/spec to
//! the real althonos/lightmotif code (path dependency on /repo, hooks on).
//!
//!   lmconform record <PROP> <out.ndjson> [--seed N] [--thorough]   impl -> spec: run drivers, log events
//!   lmconform replay <PROP> <file>                                 spec -> impl: step TLC behaviours
mod c01;
mod c04;
mod c05;
mod c06;
mod c07;
mod c08;
mod c09;
mod c16;
mod c19;
mod dist;
mod extras;
mod pipe;
mod readers;
mod scan;
mod scores;
mod util;

use serde_json::json;

fn main() {
    util::silence_panics();
    let args: Vec<String> = std::env::args().collect();
    if let Err(_) = std::panic::catch_unwind(|| real_main(&args)) {
        // A panic escaped every guarded call.  The recorder's own code does not panic on the unchanged tree, and library
        // panics raised through #[track_caller] operators (Index, arithmetic) carry harness line numbers, so the site
        // cannot tell the two apart: while RECORDING, the panic is appended to the trace as one more history (event
        // `uncaught_panic`, which TraceKit rejects for every property) and the process exits 98; while REPLAYING it is
        // written to `<file>.crash` (exit 97).
        let (loc, msg) = util::LAST_PANIC.lock().map(|g| g.clone()).unwrap_or_default();
        eprintln!("uncaught panic at {}: {}", loc, msg);
        if args.len() >= 4 && args[1] == "record" {
            use std::io::Write;
            if let Ok(mut f) = std::fs::OpenOptions::new().append(true).open(&args[3]) {
                let _ = writeln!(f, "{{\"ev\":\"reset\"}}");
                let _ = writeln!(f, "{}", json!({"ev":"uncaught_panic","ret":"panic","at":loc,"msg":msg}));
            }
            std::process::exit(98);
        }
        if args.len() >= 4 {
            let _ = std::fs::write(format!("{}.crash", args[3]), json!({"panic_at": loc, "msg": msg}).to_string());
            std::process::exit(util::LIB_PANIC_EXIT);
        }
        std::process::exit(101);
    }
}

fn real_main(args: &[String]) {
    if args.len() < 4 {
        eprintln!("usage: lmconform record|replay <PROP> <file> [--seed N] [--thorough]");
        std::process::exit(2);
    }
    let mut seed = 1u64;
    let mut thorough = false;
    let mut i = 4;
    while i < args.len() {
        match args[i].as_str() {
            "--seed" => {
                seed = args[i + 1].parse().expect("seed");
                i += 1;
            }
            "--thorough" => thorough = true,
            _ => {}
        }
        i += 1;
    }
    let prop = args[2].as_str();
    let file = args[3].as_str();
    match args[1].as_str() {
        "record" => {
            let mut rec = util::Recorder::create(file);
            util::start_watchdog(file);
            match prop {
                "C19" => c19::record(&mut rec, seed, thorough),
                "C04" => c04::record(&mut rec, seed, thorough),
                "C01" => c01::record(&mut rec, seed, thorough),
                "C05" => c05::record(&mut rec, seed, thorough),
                "C06" => c06::record(&mut rec, seed, thorough),
                "C07" => c07::record(&mut rec, seed, thorough),
                "C02" => scan::record_c02(&mut rec, seed, thorough),
                "C03" => scan::record_c03(&mut rec, seed, thorough),
                "C08" => c08::record(&mut rec, seed, thorough),
                "C09" => c09::record_c09(&mut rec, seed, thorough),
                "C14" => readers::record_c14(&mut rec, seed, thorough),
                "C16" => c16::record(&mut rec, seed, thorough),
                "extras" => extras::record(&mut rec, seed, thorough),
                "C11" => dist::record_c11(&mut rec, seed, thorough),
                "C12" => dist::record_c12(&mut rec, seed, thorough),
                "C13" => dist::record_c13(&mut rec, seed, thorough),
                "C15" => readers::record_c15(&mut rec, seed, thorough),
                "C10" => c09::record_c10(&mut rec, seed, thorough),
                "scores-linear" => scores::record(&mut rec, seed, thorough, true),
                "scores-reduce" => scores::record(&mut rec, seed, thorough, false),
                "selftest-panic" => {
                    // used by `./check selftest`: a panic outside every guarded call must end up in the trace
                    let v: Vec<u8> = Vec::new();
                    let _ = v[std::hint::black_box(1)];
                }
                _ => {
                    eprintln!("unknown property {}", prop);
                    std::process::exit(2);
                }
            }
            println!("{}", rec.finish());
        }
        "explore" => {
            if prop == "C13" { dist::explore_c13(seed); }
        }
        "replay" => {
            let out = match prop {
                "C19" => c19::replay(file),
                "C04" => c04::replay(file),
                "C07" | "C01" => scores::replay(file),
                _ => {
                    eprintln!("unknown property {}", prop);
                    std::process::exit(2);
                }
            };
            println!("{}", out);
        }
        _ => {
            eprintln!("unknown command");
            std::process::exit(2);
        }
    }
    let _ = json!(null);
}
