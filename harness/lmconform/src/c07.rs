//! C07 - maximum / arg-maximum / threshold of striped scores: recorder (impl -> spec).
use lightmotif::abc::Dna;
use lightmotif::dense::MatrixCoordinates;
use lightmotif::num::*;
use lightmotif::pli::{Maximum, Pipeline, Threshold};
use lightmotif::scores::{Scores, StripedScores};
use rand::Rng;
use serde_json::{json, Value};

use crate::pipe::*;
use crate::util::*;

const GS: u32 = 2;

pub trait Cell: Copy + Default + PartialOrd + 'static {
    const ELEM: &'static str;
    fn from_k(k: i64) -> Self;
    fn to_v(self) -> Value;
}
impl Cell for f32 {
    const ELEM: &'static str = "f32";
    fn from_k(k: i64) -> Self { ungrid(k, GS) }
    fn to_v(self) -> Value { grid(self, GS) }
}
impl Cell for u8 {
    const ELEM: &'static str = "u8";
    fn from_k(k: i64) -> Self { k as u8 }
    fn to_v(self) -> Value { json!(self) }
}

fn build<T: Cell, C: PositiveLength>(t: &[Vec<i64>], max_index: usize) -> StripedScores<T, C> {
    let mut s = StripedScores::<T, C>::empty();
    s.resize(t.len(), max_index);
    for (i, row) in t.iter().enumerate() {
        for (j, &k) in row.iter().enumerate() {
            s.matrix_mut()[i][j] = T::from_k(k);
        }
    }
    s
}

fn coords(v: Option<MatrixCoordinates>) -> Value {
    match v { Some(mc) => json!([mc.row, mc.col]), None => json!([]) }
}

// one table, one backend: max / argmax / threshold through the pipeline traits
thread_local! {
    static REUSE_TOGGLE: std::cell::Cell<usize> = const { std::cell::Cell::new(0) };
}

/// Fill `s` in place (resize + overwrite): a reused buffer that previously held another (often larger) table.
fn refill<T: Cell, C: PositiveLength>(s: &mut StripedScores<T, C>, t: &[Vec<i64>]) {
    s.resize(t.len(), t.len() * C::USIZE);
    for (i, row) in t.iter().enumerate() {
        for (j, &k) in row.iter().enumerate() {
            s.matrix_mut()[i][j] = T::from_k(k);
        }
    }
}

fn run<T: Cell, C: PositiveLength, P: Maximum<T, C> + Threshold<T, C>>(
    rec: &mut Recorder, pli: &P, be: &str, arm: Option<Arm>, t: &[Vec<i64>], thr: i64, class: &str,
) {
    // every other table goes into a buffer that first held a larger table with larger values
    let n = REUSE_TOGGLE.with(|c| { c.set(c.get() + 1); c.get() });
    let reused = n % 2 == 0;
    let s = if reused {
        let top = if T::ELEM == "f32" { 200 } else { 255 };
        let big: Vec<Vec<i64>> = (0..t.len() + 1 + n % 5).map(|_| vec![top; C::USIZE]).collect();
        let mut s = build::<T, C>(&big, big.len() * C::USIZE);
        refill::<T, C>(&mut s, t);
        s
    } else {
        // the number of valid positions recorded with the table varies too (all cells, a few less, none): the pipeline
        // reductions are defined on the cells of the matrix, whatever that number is
        let cells = t.len() * C::USIZE;
        let mi = match n % 6 { 1 => cells.saturating_sub(1 + n % 40), 3 => 0, _ => cells };
        if mi != cells { rec.class("fewer_valid_positions_than_cells"); }
        build::<T, C>(t, mi)
    };
    if reused { rec.class("reused_buffer"); }
    let r = guarded(|| {
        let mx = Maximum::<T, C>::max(pli, &s);
        let am = Maximum::<T, C>::argmax(pli, &s);
        let th = Threshold::<T, C>::threshold(pli, &s, T::from_k(thr));
        (mx, am, th)
    });
    rec.reset();
    let mut o = json!({"ev":"reduce","be":be,"arm":arm_name(arm),"elem":T::ELEM,"C":C::USIZE,"api":"pipeline","rows":t,"thr":thr,"reused":reused});
    let m = o.as_object_mut().unwrap();
    match r {
        Ok((mx, am, th)) => {
            m.insert("ret".into(), json!("ok"));
            m.insert("max".into(), match mx { Some(x) => json!([x.to_v()]), None => json!([]) });
            m.insert("argmax".into(), coords(am));
            m.insert("hits".into(), json!(th.iter().map(|c| json!([c.row, c.col])).collect::<Vec<_>>()));
        }
        Err(msg) => {
            rec.class("panic");
            m.insert("ret".into(), json!("panic"));
            m.insert("msg".into(), json!(msg));
        }
    }
    rec.class(class);
    rec.nontrivial(&(be, arm_name(arm), T::ELEM, C::USIZE, t.to_vec(), thr));
    rec.emit(o);
}

/// StripedScores::{max, argmax, threshold} (dispatching API, C = 32): offsets instead of coordinates
fn run_api<T: Cell>(rec: &mut Recorder, arm: Arm, t: &[Vec<i64>], thr: i64, class: &str)
where
    Pipeline<Dna, lightmotif::pli::dispatch::Dispatch>: Maximum<T, U32> + Threshold<T, U32>,
{
    force(Some(arm));
    let s = build::<T, U32>(t, t.len() * 32);
    let r = guarded(|| (s.max(), s.argmax(), s.threshold(T::from_k(thr))));
    force(None);
    rec.reset();
    let mut o = json!({"ev":"reduce","be":"dispatch","arm":arm.name(),"elem":T::ELEM,"C":32,"api":"striped_scores","rows":t,"thr":thr});
    let m = o.as_object_mut().unwrap();
    match r {
        Ok((mx, am, th)) => {
            m.insert("ret".into(), json!("ok"));
            m.insert("max".into(), match mx { Some(x) => json!([x.to_v()]), None => json!([]) });
            m.insert("argmax_off".into(), match am { Some(x) => json!([x]), None => json!([]) });
            m.insert("hits_off".into(), json!(th));
        }
        Err(msg) => {
            rec.class("panic");
            m.insert("ret".into(), json!("panic"));
            m.insert("msg".into(), json!(msg));
        }
    }
    rec.class(class);
    rec.emit(o);
}

fn lin<T: Cell>(rec: &mut Recorder, vals: &[i64], thr: i64) {
    let s = Scores::new(vals.iter().map(|&k| T::from_k(k)).collect::<Vec<T>>());
    let t = T::from_k(thr);
    let r = guarded(|| (s.max(), s.argmax(), s.threshold(&t)));
    rec.reset();
    match r {
        Ok((mx, am, th)) => rec.emit(json!({"ev":"reduce_lin","elem":T::ELEM,"vals":vals,"thr":thr,"ret":"ok",
            "max": match mx { Some(x) => json!([x.to_v()]), None => json!([]) },
            "argmax": match am { Some(x) => json!([x]), None => json!([]) }, "hits": th})),
        Err(msg) => rec.emit(json!({"ev":"reduce_lin","elem":T::ELEM,"vals":vals,"thr":thr,"ret":"panic","msg":msg})),
    }
    rec.class("linear_scores");
}

/// Table generators.  `lo..hi` is the background range, the maximum is `hi + 1` (or what the pattern says).
struct Gen { f32: bool }
impl Gen {
    fn base(&self, _rng: &mut impl Rng, pat: usize) -> (i64, i64) {
        if self.f32 {
            match pat % 3 { 0 => (-40, -8), 1 => (-12, 12), _ => (4, 30) }   // all-negative / mixed / all-positive
        } else {
            match pat % 3 { 0 => (0, 3), 1 => (10, 200), _ => (200, 254) }
        }
    }
    fn table(&self, rng: &mut impl Rng, rows: usize, c: usize, pat: usize, maxes: &[(usize, usize)]) -> (Vec<Vec<i64>>, i64) {
        let (lo, hi) = self.base(rng, pat);
        let mut t: Vec<Vec<i64>> = (0..rows).map(|_| (0..c).map(|_| rng.gen_range(lo..=hi)).collect()).collect();
        if self.f32 && pat % 5 == 4 {
            // sprinkle -inf
            for row in t.iter_mut() { for x in row.iter_mut() { if rng.gen_bool(0.3) { *x = NINF; } } }
        }
        for &(r, cc) in maxes { t[r][cc] = hi + 1; }
        (t, hi + 1)
    }
}

fn thresholds(rng: &mut impl Rng, f32: bool, top: i64) -> i64 {
    let t = thresholds0(rng, f32, top);
    if f32 { t } else { t.clamp(0, 255) }
}

fn thresholds0(rng: &mut impl Rng, f32: bool, top: i64) -> i64 {
    match rng.gen_range(0..6) {
        0 => top,
        1 => top + 1,
        2 => if f32 { NINF } else { 0 },
        3 => if f32 { -1000 } else { 1 },
        _ => top - rng.gen_range(0..12).min(if f32 { 100 } else { top }),
    }
}

fn campaign<T: Cell, C: PositiveLength, P: Maximum<T, C> + Threshold<T, C>>(
    rec: &mut Recorder, pli: &P, be: &str, arm: Option<Arm>, rng: &mut impl Rng, thorough: bool,
) {
    let g = Gen { f32: T::ELEM == "f32" };
    let c = C::USIZE;
    // empty table
    run::<T, C, P>(rec, pli, be, arm, &[], 0, "empty");
    let mut row_choices: Vec<usize> = vec![1, 2, 3, 5, 8, 17, 33];
    if thorough { row_choices.extend([40, 255, 256, 257]); }
    // a unique maximum in every column (hence every 128-bit lane), at the first / last / a middle row
    let mut pat = 0;
    for col in 0..c {
        for &rows in &[1usize, 3, row_choices[rng.gen_range(0..row_choices.len())]] {
            // the row of the maximum and the value range of the table vary independently
            let r = match (pat / 3 + pat) % 3 { 0 => 0, 1 => rows - 1, _ => rng.gen_range(0..rows) };
            let (t, top) = g.table(rng, rows, c, pat, &[(r, col)]);
            let thr = thresholds(rng, g.f32, top);
            run::<T, C, P>(rec, pli, be, arm, &t, thr, "unique_max_every_column");
            pat += 1;
        }
    }
    // sparse tables: the lowest value of the element type (0 / a large negative score) everywhere, in particular in the
    // whole first row, and a few spikes in later rows
    for it in 0..(if thorough { 60 } else { 24 }) {
        let rows = [2usize, 3, 5, 9, 33][it % 5];
        let floor: i64 = if g.f32 { -100 } else { 0 };
        let mut t: Vec<Vec<i64>> = vec![vec![floor; c]; rows];
        let top = floor + [1i64, 2, 7, 100][it % 4];
        for _ in 0..rng.gen_range(1..4) { let (r, cc) = (rng.gen_range(1..rows), rng.gen_range(0..c)); t[r][cc] = top - rng.gen_range(0..2).min(top - floor - 1); }
        let (r, cc) = (rng.gen_range(1..rows), it % c);
        t[r][cc] = top;
        let thr = thresholds(rng, g.f32, top);
        run::<T, C, P>(rec, pli, be, arm, &t, thr, "sparse_first_row_at_floor");
    }
    // duplicated maxima
    for _ in 0..(if thorough { 40 } else { 12 }) {
        let rows = row_choices[rng.gen_range(0..row_choices.len())];
        let n = rng.gen_range(2..5);
        let mx: Vec<(usize, usize)> = (0..n).map(|_| (rng.gen_range(0..rows), rng.gen_range(0..c))).collect();
        let (t, top) = g.table(rng, rows, c, pat, &mx);
        let thr = thresholds(rng, g.f32, top);
        run::<T, C, P>(rec, pli, be, arm, &t, thr, "duplicated_max");
        pat += 1;
    }
    // constant tables: all equal, all -inf / all 0 / all 255
    for rows in [1usize, 4] {
        let consts: Vec<i64> = if g.f32 { vec![NINF, -8, 0, 12] } else { vec![0, 255, 7] };
        for k in consts {
            let t: Vec<Vec<i64>> = (0..rows).map(|_| vec![k; c]).collect();
            run::<T, C, P>(rec, pli, be, arm, &t, k, "constant_table");
        }
    }
    if thorough {
        let rows = 5000;
        let r = rng.gen_range(0..rows);
        let cc = rng.gen_range(0..c);
        let (t, top) = g.table(rng, rows, c, 0, &[(r, cc)]);
        run::<T, C, P>(rec, pli, be, arm, &t, top - 1, "thousands_of_rows");
    }
}

fn api_campaign<T: Cell>(rec: &mut Recorder, rng: &mut impl Rng, thorough: bool)
where
    Pipeline<Dna, lightmotif::pli::dispatch::Dispatch>: Maximum<T, U32> + Threshold<T, U32>,
{
    let g = Gen { f32: T::ELEM == "f32" };
    for arm in Arm::all() {
        run_api::<T>(rec, arm, &[], 0, "empty");
        let mut pat = 0;
        for col in (0..32).step_by(if thorough { 1 } else { 3 }) {
            let rows = [1usize, 4, 9][pat % 3];
            let rr = rng.gen_range(0..rows);
            let (t, top) = g.table(rng, rows, 32, pat, &[(rr, col)]);
            let thr = thresholds(rng, g.f32, top);
            run_api::<T>(rec, arm, &t, thr, "api_unique_max");
            pat += 1;
        }
    }
}

pub fn record(rec: &mut Recorder, seed: u64, thorough: bool) {
    let mut r = rng(seed, 7);
    force(None);
    macro_rules! gen {
        ($t:ty, $c:ty) => { campaign::<$t, $c, _>(rec, &Pipeline::<Dna, _>::generic(), "generic", None, &mut r, thorough); };
    }
    gen!(f32, U2); gen!(f32, U4); gen!(f32, U16); gen!(f32, U32);
    gen!(u8, U4); gen!(u8, U16); gen!(u8, U32);
    campaign::<f32, U16, _>(rec, &Pipeline::<Dna, _>::sse2().unwrap(), "sse2", None, &mut r, thorough);
    campaign::<f32, U32, _>(rec, &Pipeline::<Dna, _>::sse2().unwrap(), "sse2", None, &mut r, thorough);
    campaign::<u8, U32, _>(rec, &Pipeline::<Dna, _>::sse2().unwrap(), "sse2", None, &mut r, thorough);
    campaign::<f32, U32, _>(rec, &Pipeline::<Dna, _>::avx2().unwrap(), "avx2", None, &mut r, thorough);
    campaign::<u8, U32, _>(rec, &Pipeline::<Dna, _>::avx2().unwrap(), "avx2", None, &mut r, thorough);
    for arm in Arm::all() {
        force(Some(arm));
        campaign::<f32, U32, _>(rec, &Pipeline::<Dna, _>::dispatch(), "dispatch", Some(arm), &mut r, thorough);
        campaign::<u8, U32, _>(rec, &Pipeline::<Dna, _>::dispatch(), "dispatch", Some(arm), &mut r, thorough);
    }
    force(None);
    api_campaign::<f32>(rec, &mut r, thorough);
    api_campaign::<u8>(rec, &mut r, thorough);
    // second sentence of C07: padding cells of real score tables (sequences from striping and from
    // StripedSequence::sample) are -inf when the wildcard column is, so max() is the best valid score
    for l in [0usize, 1, 5, 31, 32, 33, 40, 45, 63, 64, 70, 77, 96, 97, 100, 127, 130, 300, 700, 929, 961] {
        for from_sample in [false, true] {
            crate::c01::sampled::<lightmotif::abc::Dna>(rec, &mut r, l, from_sample);
            crate::c01::sampled::<lightmotif::abc::Protein>(rec, &mut r, l, from_sample);
            crate::c01::sampled_rc(rec, &mut r, l, from_sample);
        }
    }
    for it in 0..(if thorough { 6 } else { 2 }) {
        let rows = 65_536 + [40usize, 1, 700][it % 3];
        let mut sc = StripedScores::<u8, U32>::empty();
        sc.resize(rows, rows * 32);
        // background values below 100, one cell holding 100 in the low rows, the maximum 200 in a row beyond 65 535
        for i in 0..rows { for j in 0..32 { sc.matrix_mut()[i][j] = ((i * 7 + j * 13) % 90) as u8; } }
        let col = r.gen_range(0..32);
        sc.matrix_mut()[r.gen_range(0..65_536)][col] = 100;
        let top = 65_536 + r.gen_range(0..rows - 65_536);
        sc.matrix_mut()[top][if it % 2 == 0 { col } else { r.gen_range(0..32) }] = 200;
        for (be, arm) in [("avx2", None), ("dispatch", Some(Arm::Avx2)), ("generic", None)] {
            force(arm);
            let res = guarded(|| match be {
                "avx2" => { let p = Pipeline::<Dna, _>::avx2().unwrap(); (p.argmax(&sc), p.max(&sc)) }
                "dispatch" => { let p = Pipeline::<Dna, _>::dispatch(); (p.argmax(&sc), p.max(&sc)) }
                _ => { let p = Pipeline::<Dna, _>::generic(); (p.argmax(&sc), p.max(&sc)) }
            });
            force(None);
            rec.reset();
            rec.class("u8_table_beyond_65536_rows");
            rec.emit(match res {
                // the documented size limit of a kernel is an ordinary refusal
                Err(msg) => json!({"ev":"reduce_big","be":be,"rows":rows,"ret":"refused","msg":msg,"want":200,"max":[],"cell":[]}),
                Ok((am, mx)) => json!({"ev":"reduce_big","be":be,"rows":rows,"ret":"ok","want":200,
                                       "max": mx.map(|x| vec![x as i64]).unwrap_or_default(),
                                       "cell": am.map(|mc| vec![sc.matrix()[mc.row][mc.col] as i64]).unwrap_or_default()}),
            });
        }
    }
    for _ in 0..(if thorough { 200 } else { 40 }) {
        let n = r.gen_range(0..40);
        let vals: Vec<i64> = (0..n).map(|_| r.gen_range(-30..30)).collect();
        let thr = r.gen_range(-31..31);
        lin::<f32>(rec, &vals, thr);
        let vals: Vec<i64> = (0..n).map(|_| r.gen_range(0..256)).collect();
        lin::<u8>(rec, &vals, r.gen_range(0..256));
    }
}
