//! C14 / C15 - motif file readers: renderers for canonical files, chunked BufRead, recorders.
use std::io::{BufRead, Read};

use lightmotif::abc::{Dna, Protein, Symbol};
use lightmotif_io::{jaspar, jaspar16, transfac, uniprobe};
use rand::Rng;
use serde_json::{json, Value};

use crate::pipe::*;
use crate::util::*;

// ------------------------------------------------------------------------------------ abstract motifs

#[derive(Clone, Debug)]
pub struct Motif {
    pub id: String,
    pub acc: Option<String>,   // TRANSFAC accession
    pub name: Option<String>,  // TRANSFAC name
    pub desc: Option<String>,  // JASPAR / TRANSFAC description
    pub order: Vec<usize>,     // symbol ranks in the order the file names them
    pub vals: Vec<Vec<String>>, // vals[j][pos] = entry for symbol order[j] at position pos (canonical text)
    /// TRANSFAC only: literature references (RN / RX / RA / RT / RL blocks): (number, xref, pubmed id, title, link)
    pub refs: Vec<(u32, Option<String>, Option<String>, Option<String>, Option<String>)>,
    /// TRANSFAC only: further metadata lines the format allows (DT, CO, BF, BS, BA, CC), written before / after the matrix
    pub pre: Vec<String>,
    pub post: Vec<String>,
    /// UniPROBE / TRANSFAC (floating-point entries): write every entry in exponent notation (`1.5625e-2`, as printf %g,
    /// Perl, Python and R print small numbers); the value - hence the expected record - is unchanged
    pub expo: bool,
}

fn opt(v: &Option<String>) -> Value {
    match v { Some(s) => json!([s]), None => json!([]) }
}

impl Motif {
    pub fn to_json(&self) -> Value {
        json!({"id": self.id, "acc": opt(&self.acc), "name": opt(&self.name), "desc": opt(&self.desc),
               "order": self.order, "vals": self.vals,
               "refs": self.refs.iter().map(|r| json!([r.0, opt(&r.1), opt(&r.2), opt(&r.3), opt(&r.4)])).collect::<Vec<_>>()})
    }
}

fn word<R: Rng + ?Sized>(rng: &mut R, n: usize) -> String {
    const CH: &[u8] = b"ABCDEFGHIJKLMNOPQRSTUVWXYZabcdefghijklmnopqrstuvwxyz0123456789._-";
    (0..n).map(|_| CH[rng.gen_range(0..CH.len())] as char).collect()
}

fn count_text(rng: &mut impl Rng, big: bool) -> String {
    let v: u64 = match rng.gen_range(0..10) {
        0 => 0,
        1 if big => 4294967295,
        2 if big => rng.gen_range(1_000_000..4_000_000_000u64),
        3 => rng.gen_range(0..100000),
        _ => rng.gen_range(0..100),
    };
    v.to_string()
}

/// dyadic frequency rows (k/64, four symbols) summing to one exactly, as canonical decimal text
fn freq_column_set(rng: &mut impl Rng, m: usize, nsym: usize) -> Vec<Vec<String>> {
    let mut vals = vec![vec![String::new(); m]; nsym];
    for pos in 0..m {
        let mut parts = vec![0u32; nsym];
        for _ in 0..64 { parts[rng.gen_range(0..nsym)] += 1; }
        for j in 0..nsym { vals[j][pos] = format!("{}", parts[j] as f32 / 64.0); }
    }
    vals
}

pub fn gen_motif<A: Abc>(rng: &mut impl Rng, fmt: &str, idx: usize) -> Motif {
    // widths: mostly short, some 20-40, and a few beyond 99 positions (three-digit TRANSFAC row labels)
    let m = if idx % 17 == 5 { rng.gen_range(100..=125) } else if rng.gen_bool(0.1) { rng.gen_range(20..=40) } else { rng.gen_range(1..=12) };
    // one motif in four of the formats that name their symbols also lists the wildcard (N / X) as one more symbol line
    let k = if matches!(fmt, "jaspar16" | "uniprobe" | "transfac") && idx % 4 == 3 { A::KK } else { A::KK - 1 };
    let mut order: Vec<usize> = (0..k).collect();
    match fmt {
        "jaspar" => { order = vec![0, 1, 3, 2]; }                 // A C G T (ranks: A=0 C=1 T=2 G=3)
        "jaspar16" | "uniprobe" | "transfac" => {
            if rng.gen_bool(0.7) { for i in (1..k).rev() { let j = rng.gen_range(0..=i); order.swap(i, j); } }
            else if A::KK == 5 && k == 4 { order = vec![0, 1, 3, 2]; }
        }
        _ => {}
    }
    let vals = if fmt == "uniprobe" {
        freq_column_set(rng, m, k)
    } else {
        let big = fmt != "transfac";   // TRANSFAC stores f32: keep counts exactly representable
        (0..k).map(|_| (0..m).map(|_| if big { count_text(rng, true) } else { rng.gen_range(0..100000u32).to_string() }).collect()).collect()
    };
    let meta = |rng: &mut dyn rand::RngCore, p: f64| -> Option<String> {
        // one description / name in five holds characters outside ASCII (2- and 3-byte UTF-8 sequences)
        if rng.gen_bool(p) {
            if rng.gen_bool(0.2) { Some(format!("{} {} {}", word(rng, 3), ["Kr\u{fc}ppel", "\u{3b2}-catenin", "\u{10c}ech \u{2192} x", "caf\u{e9}"][rng.gen_range(0..4)], word(rng, 2))) }
            else { Some(format!("{} {}", word(rng, 5), word(rng, 3))) }
        } else { None }
    };
    // the rest of what a TRANSFAC entry may carry (every tag the parser knows): it must not disturb the fields of C14
    let mut refs = Vec::new();
    let mut pre = Vec::new();
    let mut post = Vec::new();
    if fmt == "transfac" && rng.gen_bool(0.6) {
        for n in 1..=rng.gen_range(0..3u32) {
            refs.push((n, if rng.gen_bool(0.6) { Some(format!("RE{:07}", rng.gen_range(0..9999999))) } else { None },
                       if rng.gen_bool(0.6) { Some(format!("{}", rng.gen_range(100000..99999999))) } else { None },
                       if rng.gen_bool(0.7) { Some(format!("{} {} {}", word(rng, 6), word(rng, 4), word(rng, 7)).replace('.', "x")) } else { None },
                       if rng.gen_bool(0.7) { Some(format!("{} {}:{}-{} ({}).", word(rng, 5).replace('.', "x"), rng.gen_range(1..400), rng.gen_range(1..900), rng.gen_range(900..1900), rng.gen_range(1970..2024))) } else { None }));
        }
        let lines = [format!("DT  {:02}.{:02}.{} (created); {}.", rng.gen_range(1..29), rng.gen_range(1..13), rng.gen_range(1990..2024), word(rng, 3).replace('.', "x")),
                     format!("DT  {:02}.{:02}.{} (updated); {}.", rng.gen_range(1..29), rng.gen_range(1..13), rng.gen_range(1990..2024), word(rng, 3).replace('.', "x")),
                     "CO  Copyright (C), Biobase GmbH.".to_string(),
                     format!("BF  T{:05}; {}; Species: human, Homo sapiens.", rng.gen_range(0..99999), word(rng, 4)),
                     format!("BS  {}; R{:05}; 1; 11;; p.", "ACGTTGCAAGT", rng.gen_range(0..99999)),
                     format!("BA  {} compiled sequences", rng.gen_range(1..99)),
                     format!("CC  {} {}", word(rng, 8), word(rng, 5)),
                     format!("CC  {}\nCC  {}", word(rng, 8), word(rng, 5))];
        for l in lines.iter() {
            if rng.gen_bool(0.35) { if rng.gen_bool(0.5) { pre.push(l.clone()); } else { post.push(l.clone()); } }
        }
    }
    Motif {
        expo: (fmt == "uniprobe" || fmt == "transfac") && rng.gen_bool(0.2),
        refs, pre, post,
        id: format!("M{}_{}", idx, word(rng, 4)),
        acc: if fmt == "transfac" && rng.gen_bool(0.8) { Some(format!("AC{:05}", idx)) } else { None },
        name: if fmt == "transfac" { meta(rng, 0.5) } else { None },
        desc: if fmt == "jaspar" || fmt == "jaspar16" || fmt == "transfac" { meta(rng, 0.6) } else { None },
        order,
        vals,
    }
}

fn written(x: &str, expo: bool) -> String {
    if expo { format!("{:e}", x.parse::<f32>().unwrap()) } else { x.to_string() }
}

pub fn render<A: Abc>(fmt: &str, motifs: &[Motif], rng: &mut impl Rng, version_block: bool) -> Vec<u8> {
    let mut s = String::new();
    let letter = |r: usize| A::sym(r).as_char();
    // a UniPROBE file may start with blank lines (as it may have them between records)
    if fmt == "uniprobe" && rng.gen_bool(0.3) { for _ in 0..rng.gen_range(1..4) { s.push('\n'); } }
    if fmt == "transfac" && version_block {
        s.push_str("VV  TRANSFAC MATRIX TABLE, Release 9.2 - licensed - 2005-06-30, (C) Biobase GmbH\nXX\n//\n");
    }
    for mo in motifs {
        let m = mo.vals[0].len();
        match fmt {
            "jaspar" => {
                s.push_str(&format!(">{}", mo.id));
                if let Some(d) = &mo.desc { s.push_str(&format!(" {}", d)); }
                s.push('\n');
                for j in 0..4 {
                    let sep = if rng.gen_bool(0.5) { "\t" } else { "  " };
                    s.push_str(&mo.vals[j].join(sep));
                    s.push('\n');
                }
            }
            "jaspar16" => {
                s.push_str(&format!(">{}", mo.id));
                if let Some(d) = &mo.desc { s.push_str(&format!("\t{}", d)); }
                s.push('\n');
                for (j, &r) in mo.order.iter().enumerate() {
                    s.push_str(&format!("{}  [ {} ]\n", letter(r), mo.vals[j].iter().map(|x| format!("{:>5}", x)).collect::<Vec<_>>().join(" ")));
                }
            }
            "transfac" => {
                if let Some(a) = &mo.acc { s.push_str(&format!("AC  {}\nXX\n", a)); }
                s.push_str(&format!("ID  {}\nXX\n", mo.id));
                if let Some(n) = &mo.name { s.push_str(&format!("NA  {}\nXX\n", n)); }
                if let Some(d) = &mo.desc { s.push_str(&format!("DE  {}\nXX\n", d)); }
                for l in &mo.pre { s.push_str(l); s.push_str("\nXX\n"); }
                let refs_first = mo.refs.len() % 2 == 1;
                let render_refs = |s: &mut String| {
                    for r in &mo.refs {
                        match &r.1 { Some(x) => s.push_str(&format!("RN  [{}]; {}.\n", r.0, x)), None => s.push_str(&format!("RN  [{}]\n", r.0)) }
                        if let Some(x) = &r.2 { s.push_str(&format!("RX  PUBMED: {}.\n", x)); }
                        s.push_str("RA  Sun X.-H., Baltimore D.\n");
                        if let Some(x) = &r.3 { s.push_str(&format!("RT  {}\n", x)); }
                        if let Some(x) = &r.4 { s.push_str(&format!("RL  {}\n", x)); }
                        s.push_str("XX\n");
                    }
                };
                if refs_first { render_refs(&mut s); }
                s.push_str("P0");
                for &r in &mo.order { s.push_str(&format!("      {}", letter(r))); }
                s.push('\n');
                for pos in 0..m {
                    s.push_str(&format!("{:02}", pos + 1));
                    for j in 0..mo.order.len() { s.push_str(&format!(" {:>6}", written(&mo.vals[j][pos], mo.expo))); }
                    s.push_str("      N\n");
                }
                s.push_str("XX\n");
                for l in &mo.post { s.push_str(l); s.push_str("\nXX\n"); }
                if !refs_first { render_refs(&mut s); }
                s.push_str("//\n");
            }
            "uniprobe" => {
                s.push_str(&format!("{}\n", mo.id));
                for (j, &r) in mo.order.iter().enumerate() {
                    s.push_str(&format!("{}:", letter(r)));
                    for x in &mo.vals[j] { s.push_str(&format!("\t{}", written(x, mo.expo))); }
                    s.push('\n');
                }
                if rng.gen_bool(0.7) { s.push('\n'); }
            }
            _ => panic!("fmt"),
        }
    }
    // TRANSFAC flat files written on other systems: CRLF line terminators throughout (one file in five)
    if fmt == "transfac" && motifs.len() >= 1 && rng.gen_bool(0.2) { s = s.replace('\n', "\r\n"); }
    s.into_bytes()
}

// ------------------------------------------------------------------------------------ chunked stream

/// A BufRead delivering the bytes in chunks whose sizes follow a schedule (cycled).
pub struct Chunked {
    data: Vec<u8>,
    pos: usize,
    sched: Vec<usize>,
    k: usize,
    avail: usize, // bytes of the current chunk not yet consumed
    pub delivered: usize,
    pub fills: usize,
}

impl Chunked {
    pub fn new(data: Vec<u8>, sched: Vec<usize>) -> Self {
        Self { data, pos: 0, sched, k: 0, avail: 0, delivered: 0, fills: 0 }
    }
}
impl Read for Chunked {
    fn read(&mut self, buf: &mut [u8]) -> std::io::Result<usize> {
        let n = { let b = self.fill_buf()?; let n = b.len().min(buf.len()); buf[..n].copy_from_slice(&b[..n]); n };
        self.consume(n);
        Ok(n)
    }
}
impl BufRead for Chunked {
    fn fill_buf(&mut self) -> std::io::Result<&[u8]> {
        if self.avail == 0 {
            let c = self.sched[self.k % self.sched.len()].max(1);
            self.k += 1;
            self.avail = c.min(self.data.len() - self.pos);
            self.fills += 1;
        }
        Ok(&self.data[self.pos..self.pos + self.avail])
    }
    fn consume(&mut self, amt: usize) {
        self.pos += amt;
        self.avail -= amt;
        self.delivered += amt;
    }
}

fn schedule(rng: &mut impl Rng, kind: usize, len: usize) -> (Vec<usize>, String) {
    match kind % 7 {
        0 => (vec![1], "1".into()),
        1 => (vec![2, 3, 7], "2,3,7".into()),
        2 => (vec![64], "64".into()),
        3 => (vec![4096], "4096".into()),
        4 => (vec![len.max(1)], "whole".into()),
        5 => ((0..17).map(|_| rng.gen_range(1..40)).collect(), "random".into()),
        _ => (vec![7], "7".into()),
    }
}

// ------------------------------------------------------------------------------------ reading

fn u32_rows<K: lightmotif::num::ArrayLength>(m: &lightmotif::dense::DenseMatrix<u32, K>) -> Vec<Vec<String>> {
    (0..m.rows()).map(|i| m[i].iter().map(|x| x.to_string()).collect()).collect()
}
fn f32_rows<K: lightmotif::num::ArrayLength>(m: &lightmotif::dense::DenseMatrix<f32, K>) -> Vec<Vec<String>> {
    (0..m.rows()).map(|i| m[i].iter().map(|x| format!("{}", x)).collect()).collect()
}
fn os(v: Option<&str>) -> Value {
    match v { Some(s) => json!([s]), None => json!([]) }
}

/// Outcome of one `next()`: ("record", json) | ("none") | ("error") | ("panic", msg)
type Step = (String, Value);

trait Driver {
    fn next(&mut self) -> Step;
}
macro_rules! driver {
    ($name:ident, $reader:ty, $conv:expr) => {
        struct $name { r: $reader }
        impl Driver for $name {
            fn next(&mut self) -> Step {
                match guarded(|| self.r.next()) {
                    Err(m) => ("panic".into(), json!(m)),
                    Ok(None) => ("none".into(), json!(null)),
                    Ok(Some(Err(_))) => ("error".into(), json!(null)),
                    Ok(Some(Ok(rec))) => ("record".into(), ($conv)(&rec)),
                }
            }
        }
    };
}
driver!(DJaspar, jaspar::Reader<Chunked>, |r: &jaspar::Record| json!({"id": r.id(), "acc": [], "name": [], "desc": os(r.description()), "m": u32_rows(r.matrix().matrix())}));
driver!(DJaspar16Dna, jaspar16::Reader<Chunked, Dna>, |r: &jaspar16::Record<Dna>| json!({"id": r.id(), "acc": [], "name": [], "desc": os(r.description()), "m": u32_rows(r.matrix().matrix())}));
driver!(DJaspar16Prot, jaspar16::Reader<Chunked, Protein>, |r: &jaspar16::Record<Protein>| json!({"id": r.id(), "acc": [], "name": [], "desc": os(r.description()), "m": u32_rows(r.matrix().matrix())}));
driver!(DTransfacDna, transfac::Reader<Chunked, Dna>, |r: &transfac::Record<Dna>| json!({"id": r.id().unwrap_or(""), "acc": os(r.accession()), "name": os(r.name()), "desc": os(r.description()),
        "m": r.data().map(f32_rows).unwrap_or_default(), "has_data": r.data().is_some(),
        "counts": r.to_counts().map(|c| u32_rows(c.matrix())).unwrap_or_default(),
        "refs": r.references().iter().map(|x| json!([x.number().local(), os(x.number().xref()), os(x.pmid()), os(x.title()), os(x.link())])).collect::<Vec<_>>()}));
driver!(DTransfacProt, transfac::Reader<Chunked, Protein>, |r: &transfac::Record<Protein>| json!({"id": r.id().unwrap_or(""), "acc": os(r.accession()), "name": os(r.name()), "desc": os(r.description()),
        "m": r.data().map(f32_rows).unwrap_or_default(), "has_data": r.data().is_some(),
        "counts": r.to_counts().map(|c| u32_rows(c.matrix())).unwrap_or_default(),
        "refs": r.references().iter().map(|x| json!([x.number().local(), os(x.number().xref()), os(x.pmid()), os(x.title()), os(x.link())])).collect::<Vec<_>>()}));
driver!(DUniprobeDna, uniprobe::Reader<Chunked, Dna>, |r: &uniprobe::Record<Dna>| json!({"id": r.id(), "acc": [], "name": [], "desc": [], "m": f32_rows(r.matrix().matrix())}));
driver!(DUniprobeProt, uniprobe::Reader<Chunked, Protein>, |r: &uniprobe::Record<Protein>| json!({"id": r.id(), "acc": [], "name": [], "desc": [], "m": f32_rows(r.matrix().matrix())}));

/// Construct the reader (a panic in `new` is an outcome too).
fn open(fmt: &str, abc: &str, data: Vec<u8>, sched: Vec<usize>) -> Result<Box<dyn Driver>, String> {
    let c = Chunked::new(data, sched);
    guarded(move || -> Box<dyn Driver> {
        match (fmt, abc) {
            ("jaspar", _) => Box::new(DJaspar { r: jaspar::Reader::new(c) }),
            ("jaspar16", "dna") => Box::new(DJaspar16Dna { r: jaspar16::Reader::new(c) }),
            ("jaspar16", _) => Box::new(DJaspar16Prot { r: jaspar16::Reader::new(c) }),
            ("transfac", "dna") => Box::new(DTransfacDna { r: transfac::Reader::new(c) }),
            ("transfac", _) => Box::new(DTransfacProt { r: transfac::Reader::new(c) }),
            ("uniprobe", "dna") => Box::new(DUniprobeDna { r: uniprobe::Reader::new(c) }),
            _ => Box::new(DUniprobeProt { r: uniprobe::Reader::new(c) }),
        }
    })
}

// ------------------------------------------------------------------------------------ C14

fn c14_history<A: Abc>(rec: &mut Recorder, rng: &mut impl Rng, fmt: &str, nrec: usize, kind: usize) {
    let motifs: Vec<Motif> = (0..nrec).map(|i| gen_motif::<A>(rng, fmt, i)).collect();
    let vb = rng.gen_bool(0.5);
    let data = render::<A>(fmt, &motifs, rng, vb);
    let (sched, sname) = schedule(rng, kind, data.len());
    rec.reset();
    rec.class(&format!("fmt_{}", fmt));
    rec.class(&format!("sched_{}", sname));
    if nrec >= 50 { rec.class("many_records"); }
    rec.nontrivial(&(fmt.to_string(), A::NAME, data.clone(), sname.clone()));
    let head = json!({"ev":"rd_new","fmt":fmt,"abc":A::NAME,"K":A::KK,"motifs":motifs.iter().map(|m| m.to_json()).collect::<Vec<_>>(),
                      "sched":sname,"bytes":data.len(),"version_block":vb});
    let mut d = match open(fmt, A::NAME, data.clone(), sched) {
        Ok(d) => { let mut h = head; h["ret"] = json!("ok"); rec.emit(h); d }
        Err(m) => { let mut h = head; h["ret"] = json!("panic"); h["msg"] = json!(m); rec.emit(h); return; }
    };
    for _ in 0..(nrec + 3) {
        let (k, v) = d.next();
        match k.as_str() {
            "record" => rec.emit(json!({"ev":"rd_next","ret":"record","rec":v})),
            "panic" => { rec.emit(json!({"ev":"rd_next","ret":"panic","msg":v})); return; }
            other => { rec.emit(json!({"ev":"rd_next","ret":other})); if other == "none" { return; } else { return; } }
        }
    }
    rec.emit(json!({"ev":"rd_next","ret":"hang"}));
}

pub fn record_c14(rec: &mut Recorder, seed: u64, thorough: bool) {
    let mut r = rng(seed, 14);
    let counts: Vec<usize> = if thorough { vec![0, 1, 1, 2, 3, 5, 8, 20, 60, 150, 400] } else { vec![0, 1, 2, 3, 7, 40, 120] };
    let mut kind = 0;
    for &n in &counts {
        for rep in 0..(if n <= 8 { 7 } else { 2 }) {
            let _ = rep;
            for fmt in ["jaspar", "jaspar16", "transfac", "uniprobe"] {
                kind += 1;
                c14_history::<Dna>(rec, &mut r, fmt, n, kind);
                if fmt != "jaspar" && n <= 60 && kind % 3 == 0 {
                    c14_history::<Protein>(rec, &mut r, fmt, n.min(20), kind + 1);
                }
            }
        }
    }
    // the files bundled with the repository, re-rendered from their own parse, must load identically
    bundled(rec, &mut r);
}

fn bundled(rec: &mut Recorder, rng: &mut impl Rng) {
    let repo = std::env::var("LMV_REPO").unwrap_or_else(|_| "/repo".to_string());
    for (fmt, rel) in [("jaspar16", "lightmotif-io/tests/MA0001.3.pfm"), ("jaspar16", "lightmotif-io/tests/MA0017.3.pfm"),
                        ("uniprobe", "lightmotif-io/tests/demo.uniprobe"), ("transfac", "lightmotif-io/tests/M00005.transfac")] {
        let path = format!("{}/{}", repo, rel);
        let path = path.as_str();
        let Ok(data) = std::fs::read(path) else { continue };
        // parse once with a whole-file chunk, once byte by byte: the two record lists must agree (validated as outcome lists)
        let mut outs: Vec<Vec<Value>> = Vec::new();
        for sched in [vec![data.len().max(1)], vec![1], vec![5, 1, 13]] {
            let mut v = Vec::new();
            if let Ok(mut d) = open(fmt, "dna", data.clone(), sched) {
                for _ in 0..2000 { let (k, val) = d.next(); if k == "record" { v.push(val) } else { v.push(json!(k)); break; } }
            } else { v.push(json!("panic")); }
            outs.push(v);
        }
        rec.reset();
        rec.class("bundled_file");
        let _ = rng;
        rec.emit(json!({"ev":"rd_same","fmt":fmt,"path":path,"n":outs[0].len(),"a":outs[0],"b":outs[1],"c":outs[2],"ret":"ok"}));
    }
}

// ------------------------------------------------------------------------------------ C15

fn mutate(rng: &mut impl Rng, base: &[u8], kind: usize) -> (Vec<u8>, String) {
    const DICT: &[&[u8]] = &[b">", b"[", b"]", b":", b"\t", b"\r", b"\n", b"//", b"P0", b"PO", b"XX", b"VV", b"0", b"9", b"-", b".", b"e", b"\x80", b"\xff", b"\0", b" ", b"A", b"N", b"\n\n", b"//\n", b"AC", b"RN", b"DT", b"CC", b"1e40", b"4294967296", b"A:", b"\t0.5"];
    let l = base.len();
    match kind % 11 {
        8 if l > 0 => {
            // flip the case of one ASCII letter (keywords, tags, symbols, exponents)
            let letters: Vec<usize> = (0..l).filter(|&i| base[i].is_ascii_alphabetic()).collect();
            if letters.is_empty() { return (base.to_vec(), "caseflip:none".into()); }
            let p = letters[rng.gen_range(0..letters.len())];
            let mut v = base.to_vec(); v[p] ^= 0x20; (v, format!("caseflip:{}", p))
        }
        9 | 10 if l > 0 => {
            // damage at a line boundary: bytes (often not UTF-8) right before or right after a line terminator,
            // i.e. between two records, between header and matrix, after the last row
            const JUNK: &[&[u8]] = &[b"\x80", b"\xff", b"\xc3", b"\xe2\x82", b"\xff\xfe\xfd", b"\0", b" ", b"\r", b"x", b">", b"\xc3\xa9"];
            let nl: Vec<usize> = (0..l).filter(|&i| base[i] == b'\n').collect();
            if nl.is_empty() { return (base.to_vec(), "boundary:none".into()); }
            let q = nl[rng.gen_range(0..nl.len())];
            let p = if kind % 11 == 9 { q } else { q + 1 };
            let d = JUNK[rng.gen_range(0..JUNK.len())];
            let mut v = base[..p].to_vec(); v.extend_from_slice(d); v.extend_from_slice(&base[p..]);
            (v, format!("boundary:{}:{:?}", p, d))
        }
        0 => { let p = rng.gen_range(0..=l); (base[..p].to_vec(), format!("prefix:{}", p)) }
        1 if l > 0 => { let p = rng.gen_range(0..l); let mut v = base.to_vec(); v.remove(p); (v, format!("del:{}", p)) }
        2 if l > 0 => { let p = rng.gen_range(0..l); let d = DICT[rng.gen_range(0..DICT.len())]; let mut v = base[..p].to_vec(); v.extend_from_slice(d); v.extend_from_slice(&base[p + 1..]); (v, format!("sub:{}:{:?}", p, d)) }
        3 => { let p = rng.gen_range(0..=l); let d = DICT[rng.gen_range(0..DICT.len())]; let mut v = base[..p].to_vec(); v.extend_from_slice(d); v.extend_from_slice(&base[p..]); (v, format!("ins:{}:{:?}", p, d)) }
        4 if l > 0 => {
            // drop one whole line (ragged matrices, headers without matrix)
            let lines: Vec<&[u8]> = base.split_inclusive(|&b| b == b'\n').collect();
            let j = rng.gen_range(0..lines.len());
            let v: Vec<u8> = lines.iter().enumerate().filter(|(i, _)| *i != j).flat_map(|(_, x)| x.to_vec()).collect();
            (v, format!("dropline:{}", j))
        }
        5 if l > 0 => {
            // remove one token from one line (ragged rows)
            let lines: Vec<&[u8]> = base.split_inclusive(|&b| b == b'\n').collect();
            let j = rng.gen_range(0..lines.len());
            let mut out = Vec::new();
            for (i, ln) in lines.iter().enumerate() {
                if i == j {
                    let txt = String::from_utf8_lossy(ln).to_string();
                    let mut toks: Vec<&str> = txt.split(' ').collect();
                    if toks.len() > 1 { let t = rng.gen_range(0..toks.len()); toks.remove(t); }
                    out.extend_from_slice(toks.join(" ").as_bytes());
                } else { out.extend_from_slice(ln); }
            }
            (out, format!("droptoken:{}", j))
        }
        6 => { let n = rng.gen_range(0..60); ((0..n).map(|_| rng.gen()).collect(), "random_bytes".into()) }
        _ => { let mut v = base.to_vec(); if v.last() == Some(&b'\n') { v.pop(); } (v, "no_final_newline".into()) }
    }
}

fn c15_case(rec: &mut Recorder, fmt: &str, abc: &str, data: Vec<u8>, sched: Vec<usize>, sname: &str, mname: &str) {
    let len = data.len();
    rec.reset();
    rec.class(&format!("fmt_{}", fmt));
    rec.class(&format!("mut_{}", mname.split(':').next().unwrap()));
    rec.nontrivial(&(fmt.to_string(), abc.to_string(), data.clone()));
    let mut outcomes: Vec<String> = Vec::new();
    let keep = if len <= 400 { json!(data) } else { json!([]) };
    set_pending(json!({"fmt":fmt,"abc":abc,"len":len,"mut":mname,"sched":sname,"data":keep,"text":String::from_utf8_lossy(&data[..len.min(400)])}).to_string());
    match open(fmt, abc, data, sched) {
        Err(m) => { outcomes.push("panic_in_new".into()); rec.emit(json!({"ev":"rd_fuzz","fmt":fmt,"abc":abc,"len":len,"mut":mname,"sched":sname,"outcomes":outcomes,"msg":m,"data":keep})); return; }
        Ok(mut d) => {
            let mut msg = json!("");
            let cap = len + 2;
            let mut n = 0;
            loop {
                if n > cap { outcomes.push("hang".into()); break; }
                let (k, v) = d.next();
                n += 1;
                outcomes.push(k.clone());
                if k == "panic" { msg = v; }
                if k != "record" { break; }
            }
            rec.emit(json!({"ev":"rd_fuzz","fmt":fmt,"abc":abc,"len":len,"mut":mname,"sched":sname,"outcomes":outcomes,"msg":msg,"data":keep}));
        }
    }
}

pub fn record_c15(rec: &mut Recorder, seed: u64, thorough: bool) {
    let mut r = rng(seed, 15);
    let per_fmt = if thorough { 12000 } else { 2500 };
    for fmt in ["jaspar", "jaspar16", "transfac", "uniprobe"] {
        // empty input and whitespace-only input under every schedule
        for kind in 0..7 {
            for data in [vec![], b"\n".to_vec(), b" ".to_vec(), b">".to_vec(), b"//\n".to_vec(), b"XX\n".to_vec(), b"\xff\xfe".to_vec()] {
                let (s, sn) = schedule(&mut r, kind, data.len());
                c15_case(rec, fmt, "dna", data, s, &sn, "tiny");
            }
        }
        // structurally unusual but well-formed-looking records: matrices with zero positions, rows labelled with the
        // wildcard symbol, a single row, duplicated rows, headers only
        let odd: Vec<&[u8]> = match fmt {
            "jaspar" => vec![b">ID desc\n\n\n\n\n", b">ID\n\n\n\n\n>ID2\n1 2\n3 4\n5 6\n7 8\n", b">ID\n1\n\n\n\n", b">ID\n1 2\n3 4\n5 6\n"],
            "jaspar16" => vec![b">ID\nA [ ]\nC [ ]\nG [ ]\nT [ ]\n", b">ID\nG []\n", b">ID\nN [ 1 2 ]\n", b">ID\nA [ 1 ]\nA [ 2 ]\n", b">ID\nA [ 1 2 ]\nC [ 1 ]\n",
                               b">ID\nA [ 1 2 ]\nC [ 3 4 ]\nG [ 5 6 ]\nT [ 7 8 ]\nN [ 0 1 ]\n", b">ID\n"],
            "transfac" => vec![b"ID  x\nP0      A      C      G      T\nXX\n//\n", b"ID  x\nP0      N\n01      3      N\nXX\n//\n",
                               b"ID  x\nP0      A      C      G      T      N\n01      1      2      3      4      5      N\nXX\n//\n", b"ID  x\nXX\n//\n", b"//\n//\n",
                               // more columns than the alphabet has symbols (a symbol named twice)
                               b"ID  x\nP0      A      C      G      T      A      C\n01      1      2      3      4      5      6      N\nXX\n//\n",
                               b"ID  x\nP0      A      A      A      A      A      A      A\n01      1      2      3      4      5      6      7      N\n02      1      2      3      4      5      6      7      N\nXX\n//\n",
                               b"ID  x\r\nP0      A      C      G      T\r\n01      1      2      3      4      N\r\nXX\r\n//\r\nID  y\r\nP0      A      C      G      T\r\n01      1      2      3      4      N\r\nXX\r\n//\r\n"],
            _ => vec![b"ID\nN:\t1.0\n", b"ID\nN:\t0.5\t0.5\nA:\t0.5\t0.5\n", b"ID\nA:\n", b"ID\nA:\t1.0\nA:\t1.0\n", b"ID\nA:\t0.25\nC:\t0.25\nG:\t0.25\nT:\t0.25\nN:\t0.0\n", b"ID\n\nID2\nA:\t1\n"],
        };
        for (i, data) in odd.iter().enumerate() {
            for abc in ["dna", "protein"] {
                if fmt == "jaspar" && abc == "protein" { continue; }
                let data: Vec<u8> = if abc == "protein" { data.iter().map(|&b| if b == b'N' { b'X' } else { b }).collect() } else { data.to_vec() };
                let (s, sn) = schedule(&mut r, i, data.len());
                c15_case(rec, fmt, abc, data, s, &sn, "odd_structure");
            }
        }
        // a pool of small valid files to mutate
        let pool: Vec<(Vec<u8>, &str)> = (0..12).map(|i| {
            let n = 1 + i % 3;
            if fmt != "jaspar" && i % 4 == 3 {
                let ms: Vec<Motif> = (0..n).map(|j| { let mut m = gen_motif::<Protein>(&mut r, fmt, j); for v in m.vals.iter_mut() { v.truncate(3); } m }).collect();
                (render::<Protein>(fmt, &ms, &mut r, i % 2 == 0), "protein")
            } else {
                let ms: Vec<Motif> = (0..n).map(|j| { let mut m = gen_motif::<Dna>(&mut r, fmt, j); for v in m.vals.iter_mut() { v.truncate(5); } m }).collect();
                (render::<Dna>(fmt, &ms, &mut r, i % 2 == 0), "dna")
            }
        }).collect();
        // every prefix of one valid file
        let (base, abc) = &pool[0];
        for p in 0..=base.len() {
            let (s, sn) = schedule(&mut r, p, p);
            c15_case(rec, fmt, abc, base[..p].to_vec(), s, &sn, &format!("prefix:{}", p));
        }
        // every single-byte deletion of another one
        let (base, abc) = &pool[1];
        for p in 0..base.len() {
            let mut v = base.clone(); v.remove(p);
            let (s, sn) = schedule(&mut r, p + 3, v.len());
            c15_case(rec, fmt, abc, v, s, &sn, &format!("del:{}", p));
        }
        for i in 0..per_fmt {
            let (base, abc) = &pool[r.gen_range(0..pool.len())];
            let (mut data, mut mname) = mutate(&mut r, base, i);
            if r.gen_bool(0.2) { let k2 = r.gen_range(0..11); let (d2, m2) = mutate(&mut r, &data, k2); data = d2; mname = format!("{}+{}", mname, m2); }
            let (s, sn) = schedule(&mut r, i / 8, data.len());
            c15_case(rec, fmt, abc, data, s, &sn, &mname);
        }
    }
}
