//! C04 - striping: recorder (impl -> spec) and replayer (spec -> impl).
use lightmotif::abc::{Dna, Protein, Symbol};
use lightmotif::num::*;
use lightmotif::pli::dispatch::Dispatch;
use lightmotif::pli::{Pipeline, Stripe};
use lightmotif::pwm::ScoringMatrix;
use lightmotif::seq::{EncodedSequence, StripedSequence, SymbolCount};
use lightmotif::dense::DenseMatrix;
use rand::Rng;
use serde_json::{json, Value};

use crate::pipe::*;
use crate::util::*;

/// Reading the object back (position indexing, symbol counts) is part of the observation: a panic there is reported like
/// a panic of the call itself.
fn post<A: Abc, C: PositiveLength>(s: &StripedSequence<A, C>, seq: &[usize], rng: &mut impl Rng, with_counts: bool) -> Result<Value, String> {
    guarded(|| post_raw(s, seq, rng, with_counts))
}

fn post_raw<A: Abc, C: PositiveLength>(s: &StripedSequence<A, C>, seq: &[usize], rng: &mut impl Rng, with_counts: bool) -> Value {
    let m = s.matrix();
    let by_index: Vec<Vec<usize>> = (0..m.rows()).map(|i| m[i].iter().map(|x| x.as_index()).collect()).collect();
    // the rows as the matrix's own iterator yields them: same number, same contents (a matrix that keeps rows of an
    // earlier, longer content behind its row count shows them here)
    let by_iter: Vec<Vec<usize>> = m.iter().map(|r| r.iter().map(|x| x.as_index()).collect()).collect();
    let rows = if by_iter != by_index { by_iter } else { by_index };
    let mut index = Vec::new();
    let l = seq.len();
    if l > 0 {
        let mut pos = vec![0, l - 1, l / 2];
        for _ in 0..5 {
            pos.push(rng.gen_range(0..l));
        }
        for p in pos {
            index.push(json!([p, s[p].as_index()]));
        }
    }
    let (counts, counts1) = if with_counts {
        let c: Vec<usize> = SymbolCount::<A>::count_symbols(s).iter().cloned().collect();
        let c1: Vec<usize> = A::symbols().iter().map(|x| SymbolCount::<A>::count_symbol(s, *x)).collect();
        (c, c1)
    } else {
        (vec![], vec![])
    };
    json!({"len": s.len(), "wrap": s.wrap(), "rows": rows, "index": index, "counts": counts, "counts1": counts1})
}

/// One history on one buffer: stripe / stripe_into / configure_wrap / configure in random order.
fn history<A: Abc, C: PositiveLength, P: Stripe<A, C>>(
    rec: &mut Recorder, pli: &P, be: &str, arm: Option<Arm>, rng: &mut impl Rng, lens: &[usize], via_to_striped: bool,
) where
    Pipeline<A, Dispatch>: Stripe<A, C>,
{
    rec.reset();
    rec.emit(json!({"ev":"stripe_cfg","be":be,"arm":arm_name(arm),"abc":A::NAME,"C":C::USIZE,"K":A::KK}));
    let mut buf: Option<StripedSequence<A, C>> = None;
    for (n, &l) in lens.iter().enumerate() {
        let pw = if rng.gen_bool(0.3) { 0.2 } else { 0.02 };
        let ranks = random_ranks::<A>(rng, l, pw);
        let syms = A::syms(&ranks);
        let fresh = buf.is_none() || (n > 0 && rng.gen_bool(0.25));
        let with_counts = A::KK * l <= 3000;
        let op = if fresh { "stripe" } else { "stripe_into" };
        let r = guarded(|| {
            if fresh {
                if via_to_striped {
                    buf = Some(EncodedSequence::<A>::new(syms.clone()).to_striped());
                } else {
                    buf = Some(pli.stripe(&syms));
                }
            } else {
                pli.stripe_into(&syms, buf.as_mut().unwrap());
            }
        });
        let o = json!({"op": op, "seq": ranks, "via": if fresh && via_to_striped {"to_striped"} else {"pipeline"}});
        match r {
            Ok(()) => {
                let s = buf.as_ref().unwrap();
                rec.class(if fresh { "stripe_fresh" } else { "stripe_reuse" });
                if l % C::USIZE != 0 { rec.class("len_not_multiple_of_C"); }
                if C::USIZE == 32 && l >= 1024 { rec.class("len_reaches_32x32_tile"); }
                if l == 0 { rec.class("empty"); }
                rec.nontrivial(&(be, arm.map(|a| a.name()), A::NAME, C::USIZE, l, fresh));
                match post(s, &ranks, rng, with_counts) {
                    Ok(p) => rec.emit(json!({"ev":"stripe","o":o,"ret":"ok","post":p})),
                    Err(msg) => { rec.class("panic_reading_back"); rec.emit(json!({"ev":"stripe","o":o,"ret":"panic","msg":format!("while reading the object back: {}", msg)})); return; }
                }
            }
            Err(m) => {
                rec.class("panic");
                rec.emit(json!({"ev":"stripe","o":o,"ret":"panic","msg":m}));
                return;
            }
        }
        // look-ahead rows: a few widths, up and down, sometimes deeper than the number of rows
        let nconf = rng.gen_range(1..4);
        for _ in 0..nconf {
            let rows = (l + C::USIZE - 1) / C::USIZE;
            let m = match rng.gen_range(0..6) {
                0 => 0,
                1 => rows + rng.gen_range(0..3),
                2 => rng.gen_range(30..40),
                _ => rng.gen_range(0..12),
            };
            let use_configure = rng.gen_bool(0.3);
            let zero_width = m == 0 && rng.gen_bool(0.5);
            let r = guarded(|| {
                let s = buf.as_mut().unwrap();
                if use_configure {
                    // a scoring matrix of width m+1 (configure adds m look-ahead rows)
                    let pssm = ScoringMatrix::<A>::new(Default::default(), DenseMatrix::new(if zero_width { 0 } else { m + 1 }));
                    s.configure(&pssm);
                } else {
                    s.configure_wrap(m);
                }
            });
            let o = json!({"op":"configure_wrap","m":m,"via": if use_configure {"configure"} else {"configure_wrap"}});
            match r {
                Ok(()) => {
                    rec.class("configure_wrap");
                    if m > rows { rec.class("wrap_deeper_than_rows"); }
                    rec.nontrivial(&(be, A::NAME, C::USIZE, l, m, "wrap"));
                    match post(buf.as_ref().unwrap(), &ranks, rng, with_counts) {
                        Ok(p) => rec.emit(json!({"ev":"stripe","o":o,"ret":"ok","post":p})),
                        Err(msg) => { rec.class("panic_reading_back"); rec.emit(json!({"ev":"stripe","o":o,"ret":"panic","msg":format!("while reading the object back: {}", msg)})); return; }
                    }
                }
                Err(msg) => {
                    rec.class("panic");
                    rec.emit(json!({"ev":"stripe","o":o,"ret":"panic","msg":msg}));
                    return;
                }
            }
        }
    }
}

fn lengths(c: usize, thorough: bool, rng: &mut impl Rng) -> Vec<usize> {
    let mut v: Vec<usize> = Vec::new();
    if c == 32 {
        v.extend(0..=70);
        v.extend([95, 96, 97, 127, 128, 129, 255, 256, 257, 511, 513, 991, 992, 993, 994, 1000, 1023, 1024, 1025, 1055, 1056, 1057, 1088]);
        // two and three 32-row tiles of the vector kernel (the tile loop runs more than once)
        v.extend([2047, 2048, 2079, 2080, 3009, 3072]);
        if thorough {
            v.extend(71..=1100);
            v.extend([2047, 2048, 2049, 4095, 4096, 4097, 8191, 8192, 8193]);
        } else {
            for _ in 0..12 {
                v.push(rng.gen_range(71..1100));
            }
            v.push(2049);
        }
    } else {
        v.extend(0..=(c * 6 + 3));
        if thorough {
            v.extend((c * 6 + 4)..=(c * 12));
        }
        v.push(c * 20 + 1);
    }
    v
}

fn campaign<A: Abc, C: PositiveLength, P: Stripe<A, C>>(
    rec: &mut Recorder, pli: &P, be: &str, arm: Option<Arm>, rng: &mut impl Rng, thorough: bool, via: bool,
) where
    Pipeline<A, Dispatch>: Stripe<A, C>,
{
    let mut ls = lengths(C::USIZE, thorough, rng);
    // pair every length with a random partner so that buffers are reused with longer and shorter sequences
    let n = ls.len();
    for i in 0..n {
        let j = rng.gen_range(0..n);
        let k = rng.gen_range(0..n);
        let plan = if rng.gen_bool(0.5) { vec![ls[i], ls[j]] } else { vec![ls[i], ls[j], ls[k]] };
        history::<A, C, P>(rec, pli, be, arm, rng, &plan, via);
    }
    ls.clear();
}

pub fn record(rec: &mut Recorder, seed: u64, thorough: bool) {
    let mut r = rng(seed, 4);
    macro_rules! generic {
        ($a:ty, $c:ty) => {{
            force(None);
            let pli = Pipeline::<$a, _>::generic();
            campaign::<$a, $c, _>(rec, &pli, "generic", None, &mut r, thorough, false);
        }};
    }
    // to_striped() needs Pipeline<A, Dispatch>: Stripe<A, C>, which only exists for C = 32,
    // so the small-C campaigns go through a local helper without that bound.
    small::<Dna, U1>(rec, &mut r, thorough);
    small::<Dna, U2>(rec, &mut r, thorough);
    small::<Dna, U4>(rec, &mut r, thorough);
    small::<Dna, U16>(rec, &mut r, thorough);
    // column counts that are not powers of two (any PositiveLength is legal for the generic pipeline)
    small::<Dna, U3>(rec, &mut r, thorough);
    small::<Dna, U5>(rec, &mut r, thorough);
    small::<Dna, U12>(rec, &mut r, thorough);
    small::<Protein, U7>(rec, &mut r, thorough);
    small::<Dna, U43>(rec, &mut r, thorough);
    small::<Protein, U2>(rec, &mut r, thorough);
    small::<Protein, U16>(rec, &mut r, thorough);
    generic!(Dna, U32);
    generic!(Protein, U32);
    {
        force(None);
        let pli = Pipeline::<Dna, _>::avx2().unwrap();
        campaign::<Dna, U32, _>(rec, &pli, "avx2", None, &mut r, thorough, false);
        let pli = Pipeline::<Protein, _>::avx2().unwrap();
        campaign::<Protein, U32, _>(rec, &pli, "avx2", None, &mut r, thorough, false);
    }
    for arm in Arm::all() {
        force(Some(arm));
        let pli = Pipeline::<Dna, _>::dispatch();
        campaign::<Dna, U32, _>(rec, &pli, "dispatch", Some(arm), &mut r, thorough, true);
        let pli = Pipeline::<Protein, _>::dispatch();
        campaign::<Protein, U32, _>(rec, &pli, "dispatch", Some(arm), &mut r, thorough, arm == Arm::Avx2);
    }
    force(None);
}

fn small<A: Abc, C: PositiveLength>(rec: &mut Recorder, r: &mut impl Rng, thorough: bool) {
    force(None);
    let pli = Pipeline::<A, _>::generic();
    let ls = lengths(C::USIZE, thorough, r);
    let n = ls.len();
    for i in 0..n {
        let j = r.gen_range(0..n);
        small_history::<A, C>(rec, &pli, r, &[ls[i], ls[j]]);
    }
}

// same as `history` for column counts where Pipeline<A, Dispatch> has no Stripe impl
fn small_history<A: Abc, C: PositiveLength>(
    rec: &mut Recorder, pli: &Pipeline<A, lightmotif::pli::platform::Generic>, rng: &mut impl Rng, lens: &[usize],
) {
    rec.reset();
    rec.emit(json!({"ev":"stripe_cfg","be":"generic","arm":"none","abc":A::NAME,"C":C::USIZE,"K":A::KK}));
    let mut buf: Option<StripedSequence<A, C>> = None;
    for &l in lens {
        let ranks = random_ranks::<A>(rng, l, 0.1);
        let syms = A::syms(&ranks);
        let fresh = buf.is_none();
        let r = guarded(|| {
            if fresh {
                buf = Some(pli.stripe(&syms));
            } else {
                pli.stripe_into(&syms, buf.as_mut().unwrap());
            }
        });
        let o = json!({"op": if fresh {"stripe"} else {"stripe_into"}, "seq": ranks, "via": "pipeline"});
        if let Err(m) = r {
            rec.class("panic");
            rec.emit(json!({"ev":"stripe","o":o,"ret":"panic","msg":m}));
            return;
        }
        rec.class(if fresh { "stripe_fresh" } else { "stripe_reuse" });
        rec.nontrivial(&("generic", A::NAME, C::USIZE, l, fresh));
        match post(buf.as_ref().unwrap(), &ranks, rng, true) {
            Ok(p) => rec.emit(json!({"ev":"stripe","o":o,"ret":"ok","post":p})),
            Err(msg) => { rec.class("panic_reading_back"); rec.emit(json!({"ev":"stripe","o":o,"ret":"panic","msg":format!("while reading the object back: {}", msg)})); return; }
        }
        for _ in 0..2 {
            let rows = (l + C::USIZE - 1) / C::USIZE;
            let m = if rng.gen_bool(0.3) { rows + rng.gen_range(0..3) } else { rng.gen_range(0..8) };
            let r = guarded(|| buf.as_mut().unwrap().configure_wrap(m));
            let o = json!({"op":"configure_wrap","m":m,"via":"configure_wrap"});
            if let Err(msg) = r {
                rec.class("panic");
                rec.emit(json!({"ev":"stripe","o":o,"ret":"panic","msg":msg}));
                return;
            }
            rec.class("configure_wrap");
            if m > rows { rec.class("wrap_deeper_than_rows"); }
            match post(buf.as_ref().unwrap(), &ranks, rng, true) {
                Ok(p) => rec.emit(json!({"ev":"stripe","o":o,"ret":"ok","post":p})),
                Err(msg) => { rec.class("panic_reading_back"); rec.emit(json!({"ev":"stripe","o":o,"ret":"panic","msg":format!("while reading the object back: {}", msg)})); return; }
            }
        }
    }
}

// ------------------------------------------------------------------ replay (spec -> impl)

fn replay_one<C: PositiveLength>(hist: &Value, bi: usize, steps: &mut usize, mism: &mut Vec<Value>) {
    // the model uses K = 3: symbols 0,1 and wildcard 2 -> DNA A, C and N
    let map = |r: u64| -> usize { if r == 2 { 4 } else { r as usize } };
    let unmap = |r: usize| -> u64 { if r == 4 { 2 } else { r as u64 } };
    let pli = Pipeline::<Dna, _>::generic();
    let mut buf: StripedSequence<Dna, C> = Default::default();
    for (k, step) in hist.as_array().unwrap().iter().enumerate() {
        let o = &step["op"];
        let r = guarded(|| match o["op"].as_str().unwrap() {
            "stripe" | "stripe_into" => {
                let ranks: Vec<usize> = o["seq"].as_array().unwrap().iter().map(|x| map(x.as_u64().unwrap())).collect();
                let syms = Dna::syms(&ranks);
                if o["op"] == "stripe" {
                    buf = pli.stripe(&syms);
                } else {
                    pli.stripe_into(&syms, &mut buf);
                }
            }
            "configure_wrap" => buf.configure_wrap(o["m"].as_u64().unwrap() as usize),
            _ => panic!("op"),
        });
        *steps += 1;
        let want = &step["post"];
        let bad = match r {
            Err(m) => Some(json!({"panic": m})),
            Ok(()) => {
                let m = buf.matrix();
                let rows: Vec<Vec<u64>> = (0..m.rows()).map(|i| m[i].iter().map(|x| unmap(x.as_index())).collect()).collect();
                let idx: Vec<(usize, u64)> = (0..buf.len()).map(|i| (i, unmap(buf[i].as_index()))).collect();
                let cs = SymbolCount::<Dna>::count_symbols(&buf);
                let counts = vec![cs[0] as u64, cs[1] as u64, cs[4] as u64];
                let got = json!({"len": buf.len(), "wrap": buf.wrap(), "rows": rows, "index": idx, "counts": counts});
                // compared the way C04 states it (Striped!ObsOK), not cell by cell with the model's matrix: the sequence
                // rows, length, Index and counts must be the model's; the number of look-ahead rows may exceed the
                // model's (only "at least the requested number" is required) as long as every look-ahead row k < R is
                // sequence row k shifted left by one column with the wildcard (2) in the last column
                let wrows = want["rows"].as_array().unwrap();
                let wwrap = want["wrap"].as_u64().unwrap() as usize;
                let r = wrows.len() - wwrap;
                let cc = C::USIZE;
                let mut ok = got["len"] == want["len"] && got["index"] == want["index"] && got["counts"] == want["counts"]
                    && buf.wrap() >= wwrap && rows.len() == r + buf.wrap();
                if ok {
                    for i in 0..r { if json!(rows[i]) != wrows[i] { ok = false; } }
                    for k in 0..buf.wrap().min(r) {
                        for c in 0..cc {
                            let expect = if c + 1 < cc { rows[k][c + 1] } else { 2 };
                            if rows[r + k][c] != expect { ok = false; }
                        }
                    }
                }
                if !ok { Some(got) } else { None }
            }
        };
        if let Some(b) = bad {
            if mism.len() < 5 {
                mism.push(json!({"behaviour": bi, "step": k, "C": C::USIZE, "op": o, "expected": step, "actual": b, "history": hist}));
            } else {
                mism.push(json!({"behaviour": bi, "step": k}));
            }
            return;
        }
    }
}

pub fn replay(path: &str) -> Value {
    let text = std::fs::read_to_string(path).expect("replay file");
    let mut lines = text.lines();
    let hdr: Value = serde_json::from_str(lines.next().unwrap()).unwrap();
    let c = hdr["C"].as_u64().unwrap();
    let (mut steps, mut behaviours, mut mism) = (0usize, 0usize, Vec::new());
    for (bi, line) in lines.enumerate() {
        let hist: Value = serde_json::from_str(line).unwrap();
        behaviours += 1;
        match c {
            1 => replay_one::<U1>(&hist, bi, &mut steps, &mut mism),
            2 => replay_one::<U2>(&hist, bi, &mut steps, &mut mism),
            3 => replay_one::<U3>(&hist, bi, &mut steps, &mut mism),
            4 => replay_one::<U4>(&hist, bi, &mut steps, &mut mism),
            _ => panic!("unsupported C"),
        }
    }
    json!({"behaviours": behaviours, "steps": steps, "mismatches": mism})
}
