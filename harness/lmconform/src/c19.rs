//! C19 - dense matrix storage: recorder (impl -> spec) and replayer (spec -> impl).
use lightmotif::dense::DenseMatrix;
use lightmotif::num::*;
use rand::Rng;
use serde_json::{json, Value};

use crate::util::*;

pub trait Elem: Default + Copy + PartialEq + std::fmt::Debug + 'static {
    const NAME: &'static str;
    /// cell values used by the drivers are 0..KMOD-1 (0 = the default value of the element type)
    const KMOD: i64 = 10;
    fn from_i(i: i64) -> Self;
    fn to_i(self) -> i64;
}
macro_rules! elem {
    ($t:ty, $n:expr) => {
        impl Elem for $t {
            const NAME: &'static str = $n;
            fn from_i(i: i64) -> Self {
                i as $t
            }
            fn to_i(self) -> i64 {
                self as i64
            }
        }
    };
}
elem!(u8, "u8");
elem!(u32, "u32");
elem!(f32, "f32");
elem!(i64, "i64");

const K: i64 = 10;

// Element types whose default value is NOT the all-zero bit pattern: the alphabet symbols (the default nucleotide is N,
// rank 4; the default amino acid is X, rank 20).  Value v of the abstract table <-> symbol of rank (default + v) mod K.
impl Elem for lightmotif::abc::Nucleotide {
    const NAME: &'static str = "nucleotide";
    const KMOD: i64 = 5;
    fn from_i(i: i64) -> Self { use lightmotif::abc::Alphabet; lightmotif::abc::Dna::symbols()[((4 + i) % 5) as usize] }
    fn to_i(self) -> i64 { use lightmotif::abc::Symbol; ((self.as_index() as i64) + 5 - 4) % 5 }
}
/// an element wider than the 32-byte alignment unit
impl Elem for [u32; 16] {
    const NAME: &'static str = "u32x16";
    fn from_i(i: i64) -> Self { [i as u32; 16] }
    fn to_i(self) -> i64 { self[0] as i64 }
}
impl Elem for lightmotif::abc::AminoAcid {
    const NAME: &'static str = "aminoacid";
    const KMOD: i64 = 21;
    fn from_i(i: i64) -> Self { use lightmotif::abc::Alphabet; lightmotif::abc::Protein::symbols()[((20 + i) % 21) as usize] }
    fn to_i(self) -> i64 { use lightmotif::abc::Symbol; ((self.as_index() as i64) + 21 - 20) % 21 }
}

struct Pair<T: Elem, C: ArrayLength + PartialEq> {
    a: DenseMatrix<T, C>,
    b: DenseMatrix<T, C>,
}

fn rows_of<T: Elem, C: ArrayLength + PartialEq>(m: &DenseMatrix<T, C>) -> Value {
    let mut rows = Vec::new();
    for i in 0..m.rows() {
        rows.push(m[i].iter().map(|x| x.to_i()).collect::<Vec<_>>());
    }
    json!(rows)
}

fn layout_of<T: Elem, C: ArrayLength + PartialEq>(m: &DenseMatrix<T, C>) -> Value {
    let mut pm = Vec::new();
    let mut pd = Vec::new();
    let mut prev: Option<usize> = None;
    for i in 0..m.rows() {
        let p = m[i].as_ptr() as usize;
        pm.push(p % 32);
        if let Some(q) = prev {
            pd.push(p as i64 - q as i64);
        }
        prev = Some(p);
    }
    json!({"stride": m.stride(), "sz": std::mem::size_of::<T>(), "pmods": pm, "pdeltas": pd, "cols": m.columns(), "n": m.rows()})
}

fn post<T: Elem, C: ArrayLength + PartialEq>(p: &Pair<T, C>, tgt: &str) -> Value {
    let l = if tgt == "a" { layout_of(&p.a) } else { layout_of(&p.b) };
    json!({"a": rows_of(&p.a), "b": rows_of(&p.b), "layout": l})
}

/// Apply one abstract operation (same vocabulary as spec/Dense.tla) to the real matrices.
/// Returns the observation.
fn apply<T: Elem, C: ArrayLength + PartialEq>(p: &mut Pair<T, C>, o: &Value) -> Value {
    let op = o["op"].as_str().unwrap();
    let tgt = o["tgt"].as_str().unwrap_or("a");
    let c = C::USIZE;
    // indices in events are 1-based (TLA+ convention)
    macro_rules! m {
        () => {
            if tgt == "a" {
                &mut p.a
            } else {
                &mut p.b
            }
        };
    }
    match op {
        "new" => {
            *m!() = DenseMatrix::new(o["r"].as_u64().unwrap() as usize);
            json!(m!().rows())
        }
        "with_capacity" => {
            *m!() = DenseMatrix::with_capacity(
                o["r"].as_u64().unwrap() as usize,
                o["cap"].as_u64().unwrap() as usize,
            );
            json!(m!().rows())
        }
        "resize" => {
            m!().resize(o["r"].as_u64().unwrap() as usize);
            json!(m!().rows())
        }
        "reserve" => {
            m!().reserve(o["n"].as_u64().unwrap() as usize);
            json!(m!().rows())
        }
        "set" => {
            let i = o["i"].as_u64().unwrap() as usize - 1;
            let j = o["j"].as_u64().unwrap() as usize - 1;
            let v = T::from_i(o["v"].as_i64().unwrap());
            if o["how"].as_str() == Some("coord") {
                m!()[lightmotif::dense::MatrixCoordinates::new(i, j)] = v;
            } else {
                m!()[i][j] = v;
            }
            json!(m!().rows())
        }
        "set_row" => {
            let i = o["i"].as_u64().unwrap() as usize - 1;
            let row: Vec<T> = o["row"].as_array().unwrap().iter().map(|x| T::from_i(x.as_i64().unwrap())).collect();
            m!()[i].copy_from_slice(&row);
            json!(m!().rows())
        }
        "fill" => {
            m!().fill(T::from_i(o["v"].as_i64().unwrap()));
            json!(m!().rows())
        }
        "from_rows" => {
            let rows: Vec<Vec<T>> = o["rows"]
                .as_array()
                .unwrap()
                .iter()
                .map(|r| r.as_array().unwrap().iter().map(|x| T::from_i(x.as_i64().unwrap())).collect())
                .collect();
            *m!() = DenseMatrix::from_rows(rows);
            json!(m!().rows())
        }
        "from_rows_other" => {
            // the rows come from the other matrix's own iterator (an ExactSizeIterator of rows)
            if tgt == "a" { p.a = DenseMatrix::from_rows(p.b.iter()); json!(p.a.rows()) } else { p.b = DenseMatrix::from_rows(p.a.iter()); json!(p.b.rows()) }
        }
        "clone_to_other" => {
            if tgt == "a" {
                p.b = p.a.clone();
                json!(p.a.rows())
            } else {
                p.a = p.b.clone();
                json!(p.b.rows())
            }
        }
        "clone_from" => {
            // Clone::clone_from: the destination keeps (and may reuse) its own storage
            if tgt == "a" {
                p.b.clone_from(&p.a);
                json!(p.a.rows())
            } else {
                p.a.clone_from(&p.b);
                json!(p.b.rows())
            }
        }
        "iter_ends" => {
            // ONE iterator driven from both ends
            // requests <end, k>: k = 0 -> next / next_back, k > 0 -> nth(k) / nth_back(k)
            let pat: Vec<(bool, usize)> = o["pat"].as_array().unwrap().iter().map(|x| (x[0].as_str() == Some("f"), x[1].as_u64().unwrap() as usize)).collect();
            let mut y: Vec<Vec<i64>> = Vec::new();
            let n;
            if o["mutable"].as_bool() == Some(true) {
                let mut it = m!().iter_mut();
                for &(f, k) in &pat {
                    let r = match (f, k) { (true, 0) => it.next(), (false, 0) => it.next_back(), (true, k) => it.nth(k), (false, k) => it.nth_back(k) };
                    y.push(r.map(|r| r.iter().map(|x| x.to_i()).collect()).unwrap_or_default());
                }
                n = it.len();
            } else {
                let mut it = m!().iter();
                for &(f, k) in &pat {
                    let r = match (f, k) { (true, 0) => it.next(), (false, 0) => it.next_back(), (true, k) => it.nth(k), (false, k) => it.nth_back(k) };
                    y.push(r.map(|r| r.iter().map(|x| x.to_i()).collect()).unwrap_or_default());
                }
                n = it.len();
            }
            json!({"y": y, "n": n})
        }
        "iter_mut_bump" => {
            for row in m!().iter_mut() {
                for x in row.iter_mut() {
                    *x = T::from_i((x.to_i() + 1) % o["k"].as_i64().unwrap_or(K));
                }
            }
            json!(m!().rows())
        }
        "iter" => {
            let v: Vec<Vec<i64>> = m!().iter().map(|r| r.iter().map(|x| x.to_i()).collect()).collect();
            assert!(v.iter().all(|r| r.len() == c));
            json!(v)
        }
        "iter_rev" => {
            let v: Vec<Vec<i64>> = m!().iter().rev().map(|r| r.iter().map(|x| x.to_i()).collect()).collect();
            json!(v)
        }
        "iter_len" => json!(m!().iter().len()),
        "get" => {
            let i = o["i"].as_u64().unwrap() as usize - 1;
            let j = o["j"].as_u64().unwrap() as usize - 1;
            json!(m!()[lightmotif::dense::MatrixCoordinates::new(i, j)].to_i())
        }
        "eq" => json!(p.a == p.b),
        "get_oob" | "set_oob" => {
            // a coordinate outside the table: the access must be refused (panic); whatever happens is reported, and the
            // full contents of both matrices are compared afterwards as for every operation
            let i = o["i"].as_u64().unwrap() as usize - 1;
            let j = o["j"].as_u64().unwrap() as usize - 1;
            let c = lightmotif::dense::MatrixCoordinates::new(i, j);
            let v = T::from_i(o["v"].as_i64().unwrap_or(1));
            let r = if op == "get_oob" { guarded(|| { let _ = m!()[c]; }) } else { guarded(|| { m!()[c] = v; }) };
            json!(if r.is_err() { "refused" } else { "accepted" })
        }
        _ => panic!("unknown op {}", op),
    }
}

fn random_op<C: ArrayLength + PartialEq>(rng: &mut impl Rng, na: usize, nb: usize, kmod: i64) -> Value {
    let c = C::USIZE;
    let tgt = if rng.gen_bool(0.7) { "a" } else { "b" };
    let n = if tgt == "a" { na } else { nb };
    let rrows = |rng: &mut dyn rand::RngCore| -> usize {
        match rng.gen_range(0..10) {
            0 => 0,
            1 => rng.gen_range(20..70), // force reallocation
            _ => rng.gen_range(0..6),
        }
    };
    loop {
        let k = rng.gen_range(0..21);
        return match k {
            0 => json!({"op":"new","tgt":tgt,"r":rrows(rng)}),
            1 => { let r = rrows(rng); json!({"op":"with_capacity","tgt":tgt,"r":r,"cap": if rng.gen_bool(0.4) { rng.gen_range(0..=r) } else { r + rng.gen_range(0..5) }}) }
            2 | 3 => json!({"op":"resize","tgt":tgt,"r":rrows(rng)}),
            4 => json!({"op":"reserve","tgt":tgt,"n":rng.gen_range(0..80)}),
            5 | 6 | 7 => {
                if n == 0 { continue; }
                json!({"op":"set","tgt":tgt,"i":rng.gen_range(1..=n),"j":rng.gen_range(1..=c),"v":rng.gen_range(1..kmod),
                       "how": if rng.gen_bool(0.5) {"coord"} else {"row"}})
            }
            8 => {
                if n == 0 { continue; }
                let row: Vec<i64> = (0..c).map(|_| rng.gen_range(0..kmod)).collect();
                json!({"op":"set_row","tgt":tgt,"i":rng.gen_range(1..=n),"row":row})
            }
            9 => json!({"op":"fill","tgt":tgt,"v":rng.gen_range(0..kmod)}),
            10 => {
                let r = rng.gen_range(0..5);
                let rows: Vec<Vec<i64>> = (0..r).map(|_| (0..c).map(|_| rng.gen_range(0..kmod)).collect()).collect();
                json!({"op":"from_rows","tgt":tgt,"rows":rows})
            }
            11 => if rng.gen_bool(0.3) { json!({"op":"from_rows_other","tgt":tgt}) } else { json!({"op":"clone_to_other","tgt":tgt}) },
            12 => json!({"op":"iter_mut_bump","tgt":tgt,"k":kmod}),
            13 => json!({"op":"iter","tgt":tgt}),
            14 => json!({"op":"iter_rev","tgt":tgt}),
            15 => {
                if n == 0 { json!({"op":"iter_len","tgt":tgt}) }
                else { json!({"op":"get","tgt":tgt,"i":rng.gen_range(1..=n),"j":rng.gen_range(1..=c)}) }
            }
            16 => if rng.gen_bool(0.5) { json!({"op":"eq","tgt":"a"}) } else {
                // out-of-range coordinates: a column past the last one (inside the padded stride or in the next row), a row past the last one
                let (i, j) = match rng.gen_range(0..3) { 0 => (rng.gen_range(1..=n.max(1)), c + 1 + rng.gen_range(0..3)), 1 => (n + 1 + rng.gen_range(0..2), rng.gen_range(1..=c)), _ => (n.max(1), c + 1) };
                json!({"op": if rng.gen_bool(0.5) {"get_oob"} else {"set_oob"},"tgt":tgt,"i":i,"j":j,"v":rng.gen_range(1..kmod)})
            },
            17 | 18 => json!({"op":"clone_from","tgt":tgt}),
            _ => {
                let len = rng.gen_range(0..n + 4);
                let pf = [0.5, 0.15, 0.85][rng.gen_range(0..3)];
                let pat: Vec<Value> = (0..len).map(|_| json!([if rng.gen_bool(pf) { "f" } else { "b" }, if rng.gen_bool(0.3) { rng.gen_range(1..3) } else { 0 }])).collect();
                json!({"op":"iter_ends","tgt":tgt,"pat":pat,"mutable":rng.gen_bool(0.4)})
            }
        };
    }
}

fn record_one<T: Elem, C: ArrayLength + PartialEq>(rec: &mut Recorder, seed: u64, stream: u64, len: usize) {
    let mut rng = rng(seed, stream);
    let mut p: Pair<T, C> = Pair { a: DenseMatrix::new(0), b: DenseMatrix::new(0) };
    rec.reset();
    rec.emit(json!({"ev":"dense_cfg","elem":T::NAME,"C":C::USIZE,"K":T::KMOD}));
    for _ in 0..len {
        let o = random_op::<C>(&mut rng, p.a.rows(), p.b.rows(), T::KMOD);
        let opn = o["op"].as_str().unwrap().to_string();
        let tgt = o["tgt"].as_str().unwrap().to_string();
        let pre_rows = if tgt == "a" { p.a.rows() } else { p.b.rows() };
        // reading the objects back is part of the observation: a panic there (e.g. a row count that no longer matches
        // the storage) is reported like a panic of the call itself
        let r = guarded(|| apply(&mut p, &o)).and_then(|obs| guarded(|| post(&p, &tgt)).map(|ps| (obs, ps)));
        match r {
            Ok((obs, ps)) => {
                if opn == "resize" {
                    let r = o["r"].as_u64().unwrap() as usize;
                    rec.class(if r > pre_rows { "resize_grow" } else if r < pre_rows { "resize_shrink" } else { "resize_same" });
                }
                rec.class(&format!("op_{}", opn));
                rec.nontrivial(&(T::NAME, C::USIZE, o.to_string(), pre_rows));
                rec.emit(json!({"ev":"dense","o":o,"obs":obs,"ret":"ok","post":ps}));
            }
            Err(msg) => {
                rec.class("panic");
                rec.emit(json!({"ev":"dense","o":o,"ret":"panic","msg":msg}));
                // the objects may be in an arbitrary state: start a new history
                return;
            }
        }
    }
}

pub fn record(rec: &mut Recorder, seed: u64, thorough: bool) {
    let len = if thorough { 160 } else { 45 };
    let reps = if thorough { 3 } else { 1 };
    let mut stream = 0;
    macro_rules! all_c {
        ($t:ty) => {
            for _ in 0..reps {
                record_one::<$t, U1>(rec, seed, { stream += 1; stream }, len);
                record_one::<$t, U5>(rec, seed, { stream += 1; stream }, len);
                record_one::<$t, U7>(rec, seed, { stream += 1; stream }, len);
                record_one::<$t, U16>(rec, seed, { stream += 1; stream }, len);
                record_one::<$t, U21>(rec, seed, { stream += 1; stream }, len);
                record_one::<$t, U32>(rec, seed, { stream += 1; stream }, len);
                record_one::<$t, U43>(rec, seed, { stream += 1; stream }, len);
            }
        };
    }
    all_c!(u8);
    all_c!(u32);
    all_c!(f32);
    all_c!(i64);
    all_c!(lightmotif::abc::Nucleotide);
    all_c!(lightmotif::abc::AminoAcid);
    all_c!([u32; 16]);
}

// ------------------------------------------------------------------ replay (spec -> impl)

fn replay_one<T: Elem, C: ArrayLength + PartialEq>(hist: &Value, mismatches: &mut Vec<Value>, steps: &mut usize, bi: usize) {
    let mut p: Pair<T, C> = Pair { a: DenseMatrix::new(0), b: DenseMatrix::new(0) };
    for (k, step) in hist.as_array().unwrap().iter().enumerate() {
        let mut o = step["op"].clone();
        if o["op"] == "iter_mut_bump" {
            o["k"] = step["k"].clone();
        }
        let r = guarded(|| apply(&mut p, &o)).and_then(|obs| guarded(|| {
            (obs, json!({"a": rows_of(&p.a), "b": rows_of(&p.b)}), layout_of(if o["tgt"] == "b" { &p.b } else { &p.a }))
        }));
        *steps += 1;
        let bad = match r {
            Err(m) => Some(json!({"panic": m})),
            Ok((obs, got, l)) => {
                let want = json!({"a": step["post"]["a"], "b": step["post"]["b"]});
                let lay_ok = {
                    let stride = l["stride"].as_u64().unwrap();
                    let sz = l["sz"].as_u64().unwrap();
                    stride >= C::U64
                        && (stride * sz) % 32 == 0
                        && l["pmods"].as_array().unwrap().iter().all(|x| x.as_u64() == Some(0))
                        && l["pdeltas"].as_array().unwrap().iter().all(|x| x.as_i64() == Some((stride * sz) as i64))
                };
                if got != want || obs != step["obs"] || !lay_ok {
                    Some(json!({"got": got, "obs": obs, "layout": l}))
                } else {
                    None
                }
            }
        };
        if let Some(b) = bad {
            if mismatches.len() < 5 {
                mismatches.push(json!({"behaviour": bi, "step": k, "elem": T::NAME, "C": C::USIZE, "op": o, "expected": step, "actual": b, "history": hist}));
            } else {
                mismatches.push(json!({"behaviour": bi, "step": k}));
            }
            return;
        }
    }
}

/// Replay TLC-generated behaviours (lines `REPLAY <json>`; cells in 0..K-1 with K given in file
/// header `{"C":..,"K":..}` as first line) on the real DenseMatrix for every element type.
pub fn replay(path: &str) -> Value {
    let text = std::fs::read_to_string(path).expect("replay file");
    let mut mismatches = Vec::new();
    let mut steps = 0usize;
    let mut behaviours = 0usize;
    let mut lines = text.lines();
    let hdr: Value = serde_json::from_str(lines.next().unwrap()).unwrap();
    let c = hdr["C"].as_u64().unwrap();
    let k = hdr["K"].clone();
    for (bi, line) in lines.enumerate() {
        let mut hist: Value = serde_json::from_str(line).unwrap();
        for s in hist.as_array_mut().unwrap() {
            s["k"] = k.clone();
        }
        behaviours += 1;
        macro_rules! run {
            ($c:ty) => {{
                replay_one::<u8, $c>(&hist, &mut mismatches, &mut steps, bi);
                replay_one::<u32, $c>(&hist, &mut mismatches, &mut steps, bi);
                replay_one::<f32, $c>(&hist, &mut mismatches, &mut steps, bi);
                replay_one::<i64, $c>(&hist, &mut mismatches, &mut steps, bi);
                replay_one::<lightmotif::abc::Nucleotide, $c>(&hist, &mut mismatches, &mut steps, bi);
            }};
        }
        match c {
            1 => run!(U1),
            2 => run!(U2),
            3 => run!(U3),
            5 => run!(U5),
            _ => panic!("unsupported C"),
        }
    }
    json!({"behaviours": behaviours, "steps": steps, "mismatches": mismatches})
}
