//! C01 - PSSM scoring on every backend: recorder (impl -> spec).
use lightmotif::abc::{Background, Dna, Protein};
use lightmotif::dense::DenseMatrix;
use lightmotif::num::*;
use lightmotif::pli::{Pipeline, Score, Stripe};
use lightmotif::pwm::ScoringMatrix;
use lightmotif::scores::StripedScores;
use lightmotif::seq::StripedSequence;
use rand::Rng;
use serde_json::{json, Value};

use crate::pipe::*;
use crate::util::*;

pub const GS: u32 = 2; // grid: multiples of 2^-2

/// Random grid scoring matrix as integer cells (units of 2^-GS), NINF for -inf.
pub fn random_pssm<A: Abc>(rng: &mut impl Rng, m: usize, p_ninf: f64, wild_ninf: bool, amp: i64) -> Vec<Vec<i64>> {
    (0..m)
        .map(|_| {
            (0..A::KK)
                .map(|k| {
                    if k == A::KK - 1 {
                        if wild_ninf { NINF } else { rng.gen_range(-amp..=amp) }
                    } else if rng.gen_bool(p_ninf) {
                        NINF
                    } else {
                        rng.gen_range(-amp..=amp)
                    }
                })
                .collect()
        })
        .collect()
}

pub fn build_pssm<A: Abc>(cells: &[Vec<i64>]) -> ScoringMatrix<A> {
    let mut d = DenseMatrix::<f32, A::K>::new(cells.len());
    for (i, row) in cells.iter().enumerate() {
        for (j, &v) in row.iter().enumerate() {
            d[i][j] = ungrid(v, GS);
        }
    }
    ScoringMatrix::new(Background::uniform(), d)
}

pub fn build_seq<A: Abc, C: PositiveLength>(ranks: &[usize], wrap: usize) -> StripedSequence<A, C> {
    let pli = Pipeline::<A, _>::generic();
    let mut s: StripedSequence<A, C> = if ranks.len() % 3 == 1 {
        // a REUSED buffer (generic stripe_into): it held a longer sequence and its look-ahead rows before
        let longer: Vec<usize> = (0..ranks.len() + 40 + ranks.len() % 50).map(|i| (i * 7 + 3) % (A::KK - 1)).collect();
        let mut buf: StripedSequence<A, C> = pli.stripe(A::syms(&longer));
        buf.configure_wrap(3);
        pli.stripe_into(A::syms(ranks), &mut buf);
        buf
    } else {
        pli.stripe(A::syms(ranks))
    };
    // look-ahead rows are often added in several steps (one striped sequence scored with motifs of growing width)
    if wrap >= 3 && (ranks.len() + wrap) % 2 == 0 {
        s.configure_wrap(1 + ranks.len() % (wrap - 1));
        if ranks.len() % 3 == 0 { s.configure_wrap(wrap - 1); }
    }
    s.configure_wrap(wrap);
    s
}

fn cells_of<C: PositiveLength>(s: &StripedScores<f32, C>) -> Vec<Vec<Value>> {
    let m = s.matrix();
    (0..m.rows()).map(|i| m[i].iter().map(|&x| grid(x, GS)).collect()).collect()
}

struct Case {
    ranks: Vec<usize>,
    pssm: Vec<Vec<i64>>,
    extra_wrap: usize,
    range: Option<(usize, usize)>,
    api: usize,
}

fn run_case<A: Abc, C: PositiveLength, P: Score<f32, A, C>>(
    rec: &mut Recorder, pli: &P, be: &str, arm: Option<Arm>, case: &Case, reuse: &mut StripedScores<f32, C>,
    via_pssm: Option<&dyn Fn(&ScoringMatrix<A>, &StripedSequence<A, C>) -> StripedScores<f32, C>>,
) {
    let l = case.ranks.len();
    let m = case.pssm.len();
    let r = (l + C::USIZE - 1) / C::USIZE;
    let pssm = build_pssm::<A>(&case.pssm);
    let seq = build_seq::<A, C>(&case.ranks, m - 1 + case.extra_wrap);
    let (a, b) = case.range.unwrap_or((0, r));
    let api_names = ["score", "score_into", "score_rows_into", "ScoringMatrix::score"];
    let api = if case.range.is_some() { 2 } else if case.api == 3 && via_pssm.is_none() { 0 } else { case.api };
    let res = guarded(|| -> (usize, usize, Vec<Vec<Value>>, Vec<Value>, Vec<Value>, bool) {
        let owned;
        let s: &StripedScores<f32, C> = match api {
            0 => { owned = pli.score(&pssm, &seq); &owned }
            1 => { pli.score_into(&pssm, &seq, reuse); reuse }
            2 => { pli.score_rows_into(&pssm, &seq, a..b, reuse); reuse }
            _ => { owned = (via_pssm.unwrap())(&pssm, &seq); &owned }
        };
        let un: Vec<Value> = if api != 2 { s.unstripe().iter().map(|&x| grid(x, GS)).collect() } else { vec![] };
        // Index and Vec::from on full scans
        let mut idx = Vec::new();
        if api != 2 && s.max_index() > 0 && !s.is_empty() {
            for &i in &[0usize, s.max_index() - 1, s.max_index() / 2] {
                idx.push(json!([i, grid(s[i], GS)]));
            }
        }
        // the same values read from the back through the exact-size, double-ended iterator
        let back_ok = api == 2 || { let mut b: Vec<Value> = s.iter().rev().map(|&x| grid(x, GS)).collect(); b.reverse(); b == un && s.iter().len() == un.len() };
        (s.matrix().rows(), s.max_index(), cells_of(s), un, idx, back_ok)
    });
    rec.reset();
    let base = json!({"ev":"score","be":be,"arm":arm_name(arm),"abc":A::NAME,"C":C::USIZE,"K":A::KK,"api":api_names[api],
                      "seq":case.ranks,"pssm":case.pssm,"wrap":m - 1 + case.extra_wrap,"a":a,"b":b,"full": api != 2});
    let mut o = base;
    let mm = o.as_object_mut().unwrap();
    match res {
        Ok((nrows, max_index, cells, un, idx, back_ok)) => {
            mm.insert("ret".into(), json!("ok"));
            mm.insert("back_ok".into(), json!(back_ok));
            mm.insert("nrows".into(), json!(nrows));
            mm.insert("max_index".into(), json!(max_index));
            mm.insert("cells".into(), json!(cells));
            mm.insert("unstripe".into(), json!(un));
            mm.insert("index".into(), json!(idx));
        }
        Err(msg) => {
            rec.class("panic");
            mm.insert("ret".into(), json!("panic"));
            mm.insert("msg".into(), json!(msg));
        }
    }
    rec.class(if l < m { "L<M" } else if l == m { "L=M" } else { "L>M" });
    if m > 1 && m - 1 > r { rec.class("lookahead_deeper_than_rows"); }
    if case.range.is_some() { rec.class("sub_range"); }
    if case.ranks.iter().any(|&x| x == A::KK - 1) { rec.class("wildcard_in_sequence"); }
    if l % C::USIZE != 0 { rec.class("L_not_multiple_of_C"); }
    rec.nontrivial(&(be, arm_name(arm), A::NAME, C::USIZE, l, m, a, b, api));
    rec.emit(o);
}

fn gen_case<A: Abc>(rng: &mut impl Rng, l: usize, c: usize, max_m: usize) -> Case {
    let m = match rng.gen_range(0..10) {
        0 => 1,
        1 => l.max(1).min(max_m),           // L = M
        2 => (l + 1 + rng.gen_range(0..3)).min(max_m).max(1), // L < M (when it fits)
        3 => rng.gen_range(1..=max_m),
        _ => rng.gen_range(1..=max_m.min(12)),
    };
    let pw = if rng.gen_bool(0.3) { 0.15 } else { 0.0 };
    let ranks = random_ranks::<A>(rng, l, pw);
    let p_ninf = if rng.gen_bool(0.3) { 0.15 } else { 0.0 };
    let wn = rng.gen_bool(0.7);
    let pssm = random_pssm::<A>(rng, m, p_ninf, wn, 20);
    let r = (l + c - 1) / c;
    let range = if rng.gen_bool(0.35) && r > 0 {
        let a = rng.gen_range(0..=r);
        let b = rng.gen_range(a..=r);
        Some((a, b))
    } else {
        None
    };
    Case { ranks, pssm, extra_wrap: if rng.gen_bool(0.2) { rng.gen_range(1..5) } else { 0 }, range, api: rng.gen_range(0..4) }
}

fn lengths(c: usize, thorough: bool, rng: &mut impl Rng) -> Vec<usize> {
    let mut v: Vec<usize> = Vec::new();
    let top = if thorough { 140 } else { (c * 3 + 6).min(104) };
    v.extend(0..=top);
    if c >= 16 {
        if thorough {
            v.extend([255, 256, 257, 1023, 1024, 1025, 1031, 2050]);
        } else {
            v.extend([129, 1031]);
            v.push(rng.gen_range(200..900));
        }
    }
    v
}

fn campaign<A: Abc, C: PositiveLength, P: Score<f32, A, C>>(
    rec: &mut Recorder, pli: &P, be: &str, arm: Option<Arm>, rng: &mut impl Rng, thorough: bool,
    via_pssm: Option<&dyn Fn(&ScoringMatrix<A>, &StripedSequence<A, C>) -> StripedScores<f32, C>>,
) {
    let mut reuse = StripedScores::<f32, C>::empty();
    for l in lengths(C::USIZE, thorough, rng) {
        let reps = if l <= 12 { 3 } else { 1 };
        for _ in 0..reps {
            let max_m = if l > 300 { 6 } else { 40 };
            let case = gen_case::<A>(rng, l, C::USIZE, max_m);
            run_case::<A, C, P>(rec, pli, be, arm, &case, &mut reuse, via_pssm);
        }
    }
}

fn big<A: Abc, C: PositiveLength, P: Score<f32, A, C>>(rec: &mut Recorder, pli: &P, be: &str, arm: Option<Arm>, rng: &mut impl Rng) {
    let mut reuse = StripedScores::<f32, C>::empty();
    for l in [8190usize, 8192, 8193, 8194] {
        let mut case = gen_case::<A>(rng, l, C::USIZE, 8);
        case.range = None;
        run_case::<A, C, P>(rec, pli, be, arm, &case, &mut reuse, None);
    }
}

/// The way a user gets there: text -> EncodedSequence -> to_striped() / Pipeline::stripe (whatever kernel the host
/// selects, or the arm forced) -> configure -> ScoringMatrix::score, for lengths that reach the 32x32 tiles of the vector
/// striping kernel (L >= 1024) once, twice and three times.
fn user_path<A: Abc>(rec: &mut Recorder, rng: &mut impl Rng, l: usize, via: usize)
where
    Pipeline<A, lightmotif::pli::dispatch::Dispatch>: Score<f32, A, U32> + lightmotif::pli::Stripe<A, U32>,
{
    let m = rng.gen_range(2..=8);
    let ranks = random_ranks::<A>(rng, l, 0.01);
    let cells = random_pssm::<A>(rng, m, 0.0, true, 20);
    let pssm = build_pssm::<A>(&cells);
    let arm = [None, Some(Arm::Avx2), None, Some(Arm::Sse2), Some(Arm::Generic), Some(Arm::Sse2)][via % 6];
    force(arm);
    let res = guarded(|| {
        let mut seq: StripedSequence<A, U32> = if via % 2 == 0 {
            lightmotif::seq::EncodedSequence::<A>::new(A::syms(&ranks)).to_striped()
        } else {
            Pipeline::<A, _>::dispatch().stripe(A::syms(&ranks))
        };
        seq.configure(&pssm);
        let s = pssm.score(&seq);
        (s.matrix().rows(), s.max_index(), cells_of(&s), s.unstripe().iter().map(|&x| grid(x, GS)).collect::<Vec<_>>())
    });
    force(None);
    rec.reset();
    let r = (l + 31) / 32;
    let mut o = json!({"ev":"score","be": if via % 2 == 0 { "to_striped" } else { "dispatch_stripe" },"arm":arm_name(arm),"abc":A::NAME,"C":32,"K":A::KK,
                       "api":"ScoringMatrix::score","seq":ranks,"pssm":cells,"wrap":m - 1,"a":0,"b":r,"full":true});
    match res {
        Ok((nrows, max_index, cv, un)) => { o["ret"] = json!("ok"); o["nrows"] = json!(nrows); o["max_index"] = json!(max_index); o["cells"] = json!(cv); o["unstripe"] = json!(un); o["index"] = json!([]); }
        Err(msg) => { rec.class("panic"); o["ret"] = json!("panic"); o["msg"] = json!(msg); }
    }
    rec.class("user_path_long_sequence");
    rec.nontrivial(&("user_path", A::NAME, l, via));
    rec.emit(o);
}

/// ScoringMatrix::score_position over every valid position (scalar path through StripedSequence::index).
fn score_position<A: Abc, C: PositiveLength>(rec: &mut Recorder, rng: &mut impl Rng, l: usize) {
    let case = gen_case::<A>(rng, l, C::USIZE, 10);
    let m = case.pssm.len();
    let pssm = build_pssm::<A>(&case.pssm);
    // look-ahead rows: none, exactly what the motif needs, or FEWER than it needs (a sequence configured for a shorter motif)
    let wrap = match rng.gen_range(0..4) { 0 => 0, 1 => m - 1, _ => if m >= 3 { rng.gen_range(1..m - 1) } else { 0 } };
    let seq = build_seq::<A, C>(&case.ranks, wrap);
    let n = if l >= m { l - m + 1 } else { 0 };
    let r = guarded(|| (0..n).map(|i| grid(pssm.score_position(&seq, i), GS)).collect::<Vec<_>>());
    rec.reset();
    match r {
        Ok(vals) => rec.emit(json!({"ev":"score_pos","abc":A::NAME,"C":C::USIZE,"K":A::KK,"seq":case.ranks,"pssm":case.pssm,"ret":"ok","vals":vals})),
        Err(msg) => rec.emit(json!({"ev":"score_pos","abc":A::NAME,"C":C::USIZE,"K":A::KK,"seq":case.ranks,"pssm":case.pssm,"ret":"panic","msg":msg})),
    }
    rec.class("score_position");
}

/// Striped sequences produced by `StripedSequence::sample` (not by striping): the logical sequence is read back
/// through `Index`, then scored like any other; cells past the last valid position must still be -inf when the
/// wildcard column is (second sentence of C07, checked by Trace_C01 as PadInv).
pub fn sampled<A: Abc>(rec: &mut Recorder, rng: &mut impl Rng, l: usize, from_sample: bool)
where
    Pipeline<A, lightmotif::pli::dispatch::Dispatch>: Score<f32, A, U32>,
{
    sampled_with::<A>(rec, rng, l, from_sample, &|cells| (build_pssm::<A>(cells), cells.clone()));
}

/// the same with a scoring matrix that went through `reverse_complement()` (one of the library's conversions: its wildcard
/// column must still be -inf); the logged cells are the mirrored ones
pub fn sampled_rc(rec: &mut Recorder, rng: &mut impl Rng, l: usize, from_sample: bool) {
    use lightmotif::abc::Dna;
    sampled_with::<Dna>(rec, rng, l, from_sample, &|cells| {
        let comp = [2usize, 3, 0, 1, 4];
        let mirrored: Vec<Vec<i64>> = cells.iter().rev().map(|r| (0..5).map(|k| r[comp[k]]).collect()).collect();
        (build_pssm::<Dna>(cells).reverse_complement(), mirrored)
    });
}

fn sampled_with<A: Abc>(rec: &mut Recorder, rng: &mut impl Rng, l: usize, from_sample: bool,
                        make: &dyn Fn(&Vec<Vec<i64>>) -> (ScoringMatrix<A>, Vec<Vec<i64>>))
where
    Pipeline<A, lightmotif::pli::dispatch::Dispatch>: Score<f32, A, U32>,
{
    use rand::SeedableRng;
    let m = rng.gen_range(1..=6);
    let cells0 = random_pssm::<A>(rng, m, 0.0, true, 20);
    let (pssm, cells) = make(&cells0);
    let r = guarded(|| {
        let srng = rand::rngs::StdRng::seed_from_u64(rng.gen());
        let mut seq = if from_sample {
            StripedSequence::<A, U32>::sample(srng, Background::<A>::uniform(), l)
        } else {
            // a REUSED buffer: it first held a longer sequence (any stale symbol left in the padding would show up
            // as a finite score past the last valid position)
            let rk = random_ranks::<A>(rng, l, 0.05);
            let longer = random_ranks::<A>(rng, l + 40 + l % 61 * 15, 0.0);
            let pli = Pipeline::<A, _>::dispatch();
            let mut buf = pli.stripe(A::syms(&longer));
            pli.stripe_into(A::syms(&rk), &mut buf);
            buf
        };
        let ranks: Vec<usize> = (0..seq.len()).map(|i| lightmotif::abc::Symbol::as_index(&seq[i])).collect();
        // every other sequence was first configured for a shorter motif (one striped sequence scanned with several
        // motifs): the look-ahead rows added by the second configure must continue the columns as well
        if m >= 3 && (l + m) % 2 == 1 { seq.configure_wrap(1 + l % (m - 2)); }
        seq.configure(&pssm);
        let sc = pssm.score(&seq);
        let mx: Vec<Value> = match sc.max() { Some(x) => vec![grid(x, GS)], None => vec![] };
        (ranks, sc.matrix().rows(), sc.max_index(), cells_of(&sc), mx)
    });
    rec.reset();
    rec.class(if from_sample { "padding_of_sampled_sequence" } else { "padding_of_striped_sequence" });
    let origin = if from_sample { "StripedSequence::sample" } else { "stripe" };
    match r {
        Ok((ranks, nrows, max_index, cells_v, mx)) => {
            let rr = (ranks.len() + 31) / 32;
            rec.emit(json!({"ev":"padding","origin":origin,"abc":A::NAME,"C":32,"K":A::KK,
                "seq":ranks,"pssm":cells,"a":0,"b":rr,"ret":"ok","nrows":nrows,"max_index":max_index,"cells":cells_v,"max":mx}));
        }
        Err(msg) => rec.emit(json!({"ev":"padding","origin":origin,"abc":A::NAME,"C":32,"K":A::KK,
                "seq":[],"pssm":cells,"a":0,"b":0,"ret":"panic","msg":msg,"nrows":0,"max_index":0,"cells":[],"max":[]})),
    }
}

pub fn record(rec: &mut Recorder, seed: u64, thorough: bool) {
    let mut r = rng(seed, 1);

    macro_rules! generic {
        ($a:ty, $c:ty) => {{
            force(None);
            campaign::<$a, $c, _>(rec, &Pipeline::<$a, _>::generic(), "generic", None, &mut r, thorough, None);
        }};
    }
    generic!(Dna, U1);
    generic!(Dna, U2);
    generic!(Dna, U4);
    generic!(Dna, U16);
    generic!(Dna, U32);
    generic!(Protein, U2);
    generic!(Protein, U16);
    generic!(Protein, U32);
    force(None);
    campaign::<Dna, U16, _>(rec, &Pipeline::<Dna, _>::sse2().unwrap(), "sse2", None, &mut r, thorough, None);
    campaign::<Dna, U32, _>(rec, &Pipeline::<Dna, _>::sse2().unwrap(), "sse2", None, &mut r, thorough, None);
    campaign::<Protein, U16, _>(rec, &Pipeline::<Protein, _>::sse2().unwrap(), "sse2", None, &mut r, thorough, None);
    campaign::<Protein, U32, _>(rec, &Pipeline::<Protein, _>::sse2().unwrap(), "sse2", None, &mut r, thorough, None);
    campaign::<Dna, U32, _>(rec, &Pipeline::<Dna, _>::avx2().unwrap(), "avx2", None, &mut r, thorough, None);
    campaign::<Protein, U32, _>(rec, &Pipeline::<Protein, _>::avx2().unwrap(), "avx2", None, &mut r, thorough, None);
    for arm in Arm::all() {
        force(Some(arm));
        let f = |p: &ScoringMatrix<Dna>, s: &StripedSequence<Dna, U32>| p.score(s);
        campaign::<Dna, U32, _>(rec, &Pipeline::<Dna, _>::dispatch(), "dispatch", Some(arm), &mut r, thorough, Some(&f));
        let f = |p: &ScoringMatrix<Protein>, s: &StripedSequence<Protein, U32>| p.score(s);
        campaign::<Protein, U32, _>(rec, &Pipeline::<Protein, _>::dispatch(), "dispatch", Some(arm), &mut r, thorough, Some(&f));
    }
    force(None);
    if thorough {
        big::<Dna, U32, _>(rec, &Pipeline::<Dna, _>::avx2().unwrap(), "avx2", None, &mut r);
        big::<Protein, U32, _>(rec, &Pipeline::<Protein, _>::avx2().unwrap(), "avx2", None, &mut r);
        big::<Dna, U32, _>(rec, &Pipeline::<Dna, _>::sse2().unwrap(), "sse2", None, &mut r);
        big::<Dna, U32, _>(rec, &Pipeline::<Dna, _>::generic(), "generic", None, &mut r);
    }
    // ... and the same route for the shortest texts (empty, shorter than the motif, exactly as long), every arm
    for (i, l) in [0usize, 0, 1, 1, 2, 3, 5, 8, 8, 31, 32, 33].into_iter().enumerate() {
        user_path::<Dna>(rec, &mut r, l, i);
        user_path::<Dna>(rec, &mut r, l, i + 3);
        user_path::<Protein>(rec, &mut r, l, i + 1);
    }
    let longs: Vec<usize> = if thorough { vec![1024, 1025, 1055, 1056, 1088, 1119, 1500, 2047, 2048, 2079, 2080, 3009, 3072, 4100] } else { vec![1024, 1056, 2048, 3009] };
    for (i, &l) in longs.iter().enumerate() {
        user_path::<Dna>(rec, &mut r, l, i);
        user_path::<Dna>(rec, &mut r, l, i + 1);
        if i % 2 == 0 { user_path::<Protein>(rec, &mut r, l, i + 1); }
    }
    for l in (0..(if thorough { 120 } else { 50 })).chain([70usize, 100, 131, 200]) {
        score_position::<Dna, U32>(rec, &mut r, l);
        score_position::<Protein, U32>(rec, &mut r, l);
        score_position::<Dna, U4>(rec, &mut r, l);
    }
}
