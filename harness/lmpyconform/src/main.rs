//! lmpyconform - runs /verif/py/driver.py inside an embedded CPython in which the repository's own
//! `lightmotif-py` crate is registered as `lightmotif.lib` (exactly like lightmotif-py/lightmotif/tests/unittest.rs),
//! so that the Python bindings of /repo's current working tree are exercised without building a wheel.
//!
//!   lmpyconform record <C06|C09|C10|C11|C12|C13|C14|C17|C18> <out.ndjson> [--seed N] [--thorough]
use pyo3::prelude::*;
use pyo3::types::{PyDict, PyList, PyModule};

/// Hook H1 exposed to the Python driver: force the dispatcher arm on this thread ("avx2" | "sse2" | "generic" | "none").
#[pyfunction]
fn force_arm(name: &str) -> PyResult<()> {
    use lightmotif::pli::dispatch::Dispatch;
    lightmotif::verif::force_backend(match name {
        "avx2" => Some(Dispatch::Avx2),
        "sse2" => Some(Dispatch::Sse2),
        "generic" => Some(Dispatch::Generic),
        _ => None,
    });
    Ok(())
}

// ---- watchdog (same protocol as lmconform): no progress for LMV_WATCHDOG_SECS -> <trace>.hang, exit 96 --------------
static BEAT: std::sync::atomic::AtomicU64 = std::sync::atomic::AtomicU64::new(0);
static HISTORIES: std::sync::atomic::AtomicU64 = std::sync::atomic::AtomicU64::new(0);
static PENDING: std::sync::Mutex<String> = std::sync::Mutex::new(String::new());

/// Called by the Python driver before / after every call into the bindings and at every recorded event.
#[pyfunction]
fn beat(histories: u64, pending: &str) -> PyResult<()> {
    BEAT.fetch_add(1, std::sync::atomic::Ordering::Relaxed);
    HISTORIES.store(histories, std::sync::atomic::Ordering::Relaxed);
    if !pending.is_empty() {
        if let Ok(mut g) = PENDING.lock() { *g = pending.to_string(); }
    }
    Ok(())
}

fn start_watchdog(trace_path: &str) {
    let path = format!("{}.hang", trace_path);
    let limit: u64 = std::env::var("LMV_WATCHDOG_SECS").ok().and_then(|x| x.parse().ok()).unwrap_or(150);
    std::thread::spawn(move || {
        let mut last = BEAT.load(std::sync::atomic::Ordering::Relaxed);
        let mut idle = 0u64;
        loop {
            std::thread::sleep(std::time::Duration::from_secs(1));
            let now = BEAT.load(std::sync::atomic::Ordering::Relaxed);
            if now != last { last = now; idle = 0; continue; }
            idle += 1;
            if idle >= limit {
                let pending = PENDING.try_lock().map(|g| g.clone()).unwrap_or_default();
                let v = format!("{{\"hang\": true, \"idle_seconds\": {}, \"completed_histories\": {}, \"pending\": {:?}}}",
                                idle, HISTORIES.load(std::sync::atomic::Ordering::Relaxed), pending);
                let _ = std::fs::write(&path, v);
                std::process::exit(96);
            }
        }
    });
}

fn main() {
    std::panic::set_hook(Box::new(|_| {}));
    let args: Vec<String> = std::env::args().collect();
    if args.len() < 4 || args[1] != "record" {
        eprintln!("usage: lmpyconform record <C06|C09|C10|C11|C12|C13|C14|C17|C18> <out.ndjson> [--seed N] [--thorough]");
        std::process::exit(2);
    }
    let mut seed = 1u64;
    let mut thorough = false;
    let mut i = 4;
    while i < args.len() {
        match args[i].as_str() {
            "--seed" => { seed = args[i + 1].parse().expect("seed"); i += 1; }
            "--thorough" => thorough = true,
            _ => {}
        }
        i += 1;
    }
    let verif = std::env::var("LMV_VERIF").unwrap_or_else(|_| "/verif".to_string());
    start_watchdog(args[3].as_str());
    pyo3::prepare_freethreaded_python();
    let r: PyResult<String> = Python::with_gil(|py| {
        let sys = py.import_bound("sys")?;
        let path = sys.getattr("path")?;
        let path = path.downcast::<PyList>()?;
        let repo = std::env::var("LMV_REPO").unwrap_or_else(|_| "/repo".to_string());
        path.insert(0, format!("{}/lightmotif-py", repo))?;
        path.insert(0, format!("{}/py", verif))?;
        let module = PyModule::new_bound(py, "lightmotif.lib")?;
        lightmotif_py::init(py, &module)?;
        let modules = sys.getattr("modules")?;
        let modules = modules.downcast::<PyDict>()?;
        modules.set_item("lightmotif.lib", module)?;
        let hook = PyModule::new_bound(py, "lmhook")?;
        hook.add_function(wrap_pyfunction!(force_arm, &hook)?)?;
        hook.add_function(wrap_pyfunction!(beat, &hook)?)?;
        modules.set_item("lmhook", hook)?;
        let driver = py.import_bound("driver")?;
        let out = driver.call_method1("main", (args[2].as_str(), args[3].as_str(), seed, thorough))?;
        out.extract::<String>()
    });
    match r {
        Ok(summary) => println!("{}", summary),
        Err(e) => {
            Python::with_gil(|py| e.print(py));
            eprintln!("driver failed");
            std::process::exit(3);
        }
    }
}
