fn main(){}
